#!/usr/bin/env python3
"""Writes /verif/seeded/<id>/meta.json from the table below plus the confirmation log written by tools/confirm_seed.sh.
Each entry: property, origin, what the change is, what it needs to manifest, which check result I observed (tools/try_seed.sh)."""
import json, os, sys

ROOT = os.path.join(os.path.dirname(os.path.abspath(__file__)), "..", "seeded")
T = {}


def seed(id_, prop, change, needs, detected_by, first_result="caught", strengthened=None):
    T[id_] = dict(property=prop, origin="fresh sub-agent given only the property text and a scratch worktree", change=change, needs_to_manifest=needs,
                  check_result=dict(first_run=first_result, strengthening=strengthened, now="caught", detected_by=detected_by))


seed("C01-1", "C01", "asin_acos_kernel: -((xp1*xm1)/ap1) replaced by (1 - x*x)/ap1 in the |x|<1, |y|<safe_min arm (cancellation as x -> 1)",
     "complex asin/acos/acosh/asinh, larger component in (0.99, 1), other component non-zero but below 4*sqrt(smallest normal); both dtypes",
     "C01 quick: ulp-bound:asin / ulp-bound:acosh (workload W4: components a few ULP to 1e-3 from 1 combined with tiny components)")
seed("C01-2", "C01", "complex_log1p: low word xxl of the Dekker square of x dropped from the 2Sum list",
     "real part of complex log1p near the circle |1+z| = 1 away from the documented parabola (z near -2, -1.6+-0.8i, -1+-i ...)",
     "C01 quick: ulp-bound:log1p (workload W2: points within a few ULP..1e-3 of |1+z| = 1, all around the circle)")
seed("C03-1", "C03", "complex_sqrt: the select that picks the closed form on the diagonal tests x == y instead of |x| == |y|",
     "sqrt at points with re == -im (anti-diagonal): conj symmetry breaks by 1-3 ULP for ~45 % of such points",
     "C03 quick: conj:sqrt (diagonal / anti-diagonal points are a directed class of the identity workload)")
seed("C03-2", "C03", "complex_atan wrapper drops both minus signs of -i*atanh(i*z) (same function, bit-identical except through atanh's treatment of -0)",
     "imag z = +-0 (any real part): atan(z).imag is +0 where the rotation identity gives -0; needs the package's own atanh expanded",
     "C03 quick: rot:atan=-i*atanh(i*z) on the signed-zero lattice (zero components are not excluded from the rotation identities)")
seed("C04-1", "C04", "Expr._is_nonnegative multiply/divide: (positive, negative) widened to (positive, nonpositive) => positive*nonpositive claimed strictly negative",
     "a product const_pos * (-abs(x)) (or eps * -square(x)) compared with 0 / a sign-inferred expression, evaluated where the non-positive factor is exactly 0",
     "C04 quick: step:exact:ge / step:exact:gt / step:float:gt (and the sign-fact monitor on Expr._is_* claims)",
     first_result="missed (HELD): the signed-expression generator had 8 fixed shapes, none a product of a positive constant and a non-positive term; exact assignments hit x=0 rarely",
     strengthened="compositional sign-class generator (products/quotients/sums/negations of pos/nonneg/neg/nonpos terms), a monitor of every Expr._is_{positive,negative,nonnegative,nonpositive,zero,nonzero} claim against exact values, structured exact assignments (all zero, all equal, one symbol zero)")
seed("C04-2", "C04", "Rewriter.logical_not: not (a <= b) rewritten to b <= a instead of b < a",
     "nested-select flattening or comparison distributed over a select whose condition is a <=, evaluated at a tie a == b",
     "C04 quick: program:float:whole:* and step monitors on select / comparison rules")
seed("C05-1", "C05", "NumPy make_constant prints finite complex constants through str(value): numpy.complex128((-4-0j)) loses a -0.0 part",
     "NumPy target, a complex constant with a negative-zero real or imaginary part, an input on which the sign of zero matters",
     "C05 quick: numpy:value-differs on directed:complex-constant-signed-zero-parts",
     first_result="missed (HELD): no directed or generated program had a complex constant with a -0.0 part",
     strengthened="directed programs with complex constants having -0.0 / negative / infinite parts, for all three targets")
seed("C05-2", "C05", "C++ kind_to_target: ge printed as ({0}) > ({1})",
     "a ge node that survives rewriting (inside logical_and/or/not, referenced twice, or a graph printed without the algebraic rewrite pass) and equal operands",
     "C05 quick: cpp:value-differs:float32 on unit-norewrite:kind:ge and directed:cmp-inside-logical:ge",
     first_result="missed (HELD): the unit program select(ge(a,b),a,b) is canonicalised to select(lt(a,b),b,a) by the rewriter, so the ge template was never printed; equal operands were rare",
     strengthened="every unit/directed program is also printed without the algebraic rewrite; comparisons inside logical ops and referenced twice; a quarter of the multi-argument inputs repeat one value in every argument")
seed("C05-3", "C05", "make_ref compares the Python type of the constant's value instead of the expression type when deciding whether two equal-valued constants may share a name",
     "a mixed-dtype graph with the same literal / named constant 'like' float32 and float64 operands, printed without the algebraic rewrite",
     "C05 quick: cpp|numpy:variable-shared-by-distinct-expressions and value-differs on directed-norewrite:same-value-two-likes",
     first_result="missed (HELD): after the rewrite pass constants are NumPy scalars of their dtype, where the change is invisible",
     strengthened="no-rewrite variants of the directed programs; named-constant-two-types and literal-two-types programs")
seed("C06-1", "C06", "StableHLO printer: a constant whose like-operand is not bound yet is attached to the nearest bound ancestor, walking through real/imag/abs of a complex value",
     "StableHLO target, complex-typed graph, a constant printed before its real(z)/imag(z)/abs(z) like-operand is bound (shipped: log(:complex))",
     "C06 quick: stablehlo:constant-attached-to-wrong-element-class")
seed("C06-2", "C06", "PrinterBase.tostring apply branch rebinds self.assignments instead of extending it, breaking the alias with the XLA constant printer's statement list",
     "XLA client target with the alternative constant context and a compile-time value expression used more than once (17 of 29 shipped graphs)",
     "C06 quick: xla_client:constant-expression-not-evaluable (FloatType declarations are tracked, not only XlaOp ones)")
seed("C07-1", "C07", "Expr._two_level_intkey packs operand construction indices into 16-bit fields of one integer",
     "one context with more than 65536 expressions; collisions between k(a, b) with b >= 65536 and k(a | b>>16, b & 0xffff) one level below the aliased node",
     "C07 quick: alias-different-structure in the long-history task",
     first_result="missed (HELD): the largest context of the quick tier had a few hundred expressions, of the thorough tier 30000",
     strengthened="task_long: a single context grown past 2^17 (quick) and 2^20 (thorough) expressions, dense around 8 hot operands on either side and one level down")
seed("C07-2", "C07", "constant key canonicalises every value with value != value to ('nan', typename)",
     "two complex constants with a NaN part and different other parts (complex(nan,1) vs complex(nan,2)), same Python type and like",
     "C07 quick: alias-constant-value-or-type",
     first_result="missed (HELD): the model's own value key mapped every NaN-containing value of a type to one key (written to tolerate NaN != NaN), so the oracle had the same blind spot",
     strengthened="the model keeps the exact bits of the non-NaN part and which part is NaN; NaN-part complex constants added to the value generator")
seed("C08-1", "C08", "Expr.get_type: a binary operation with exactly one constant operand takes the type of the non-constant operand",
     "a constant 'like' a wider expression combined with a narrower operand (float64 constant with float32 symbol), node referenced twice or the result",
     "C08 quick: static-vs-runtime:divide / :subtract / ...")
seed("C08-2", "C08", "Type.max memoised per context with a key that omits the right operand's kind",
     "one context where float16/float32 is the left operand once against float64 and once against complex64 (either order of construction)",
     "C08 quick: static-vs-runtime:add / :divide (three-symbol mixed graphs)")
seed("C10-1", "C10", "utils.split_veltkamp: d = x - g replaced by d = (1 - C) * x",
     "odd precision (float16, float64), both operands with an odd significand in the top 2^-s of their binade: multiply_dekker / square_dekker inexact",
     "C10 quick: utils.multiply_dekker-exact, utils.square_dekker-exact (exhaustive float16 significand classes)")
seed("C10-2", "C10", "fpa.add_2sum fix_overflow guard abs(z) > largest became >=",
     "fast=False, fix_overflow=True, second operand exactly +-largest: t forced to 0 with no overflow anywhere",
     "C10 quick: fpa.add_2sum-exact")

seed("C09-1", "C09", "make_ref: composed reference names longer than 44 characters are cut and suffixed with hash(ref) & 0xFFFFFF (str hash is salted per process)",
     "two different PYTHONHASHSEED values and a function with a composed name longer than 44 characters (complex asin/acos/asinh/acosh/asin_acos_kernel: 35 of 172 requests)",
     "C09 quick: text-differs-from-canonical (hash seeds 1, 2 against the canonical seed-0 process)")
seed("C09-2", "C09", "the registry of constant reference-name owners moved from the Context instance to a class attribute shared by all contexts",
     "an earlier generation in the same process that used an unnamed shared constant of the same value identifier but another type (numpy asin complex64 after complex128, cpp hypot float32 after python hypot ...)",
     "C09 quick: text-differs-from-canonical under the 'reversed' / pollution-prefix histories")
seed("C11-1", "C11", "mul_dekker fix_overflow: overflow = abs(xh*yh) > largest lost its abs()",
     "fix_overflow=True, x*y negative and within ~2^-(p/2) of -largest: all fma variants return -inf / nan although x*y and x*y+z are finite",
     "C11 quick: fma_real-bound:*:internal_overflow_result_is_not_the_documented_fallback",
     first_result="missed (HELD): the failing operands lie in the region of KF-C11-fma-overflow-fallback and the classifier keyed that finding by the operand region only",
     strengthened="the known finding is now matched by its result signature (result == RN(RN(x*y)+z), or non-finite when that overflows); other results in the region are violations")
seed("C11-2", "C11", "fma a9 tie-correction guard tests vh == 0 instead of vl == 0 (both copies)",
     "algorithm='a9', z cancelling RN(x*y) to within a few ULP and the product's rounding error 1 or 3 times a power of two (ties, short significands)",
     "C11 quick: apmath.fma-bound:a9 (relation generators: rounding ties and cancellation)")
seed("C12-1", "C12", "renormalize: the first step of the error-branch pass skipped (e[0] always emitted first)",
     "leading items that cancel exactly ([a, -a, b], [-a, a+ulp, small]); visible as a zero first item, and as a lost sum under a size limit although the exact result fits",
     "C12 quick: renormalize-size-limit-changes-sum-with-nothing-to-truncate:eager|functional",
     first_result="missed (HELD): the generator's strict-decrease enforcement removed equal-magnitude neighbours (no [a, -a, ..]); size-limited calls were exempted from the sum clause whenever the output was full",
     strengthened="head-cancellation inputs, non-strict precondition, zeros-last after two passes, and 'a size limit >= the number of non-zero items of the unlimited result must not change the sum'")
seed("C12-2", "C12", "square: the error word of the doubled cross products is not doubled (e_i += e_i deleted)",
     "leading items of opposite sign and comparable magnitude (unnormalised input such as [1.3, -0.91]): error of 3-10 ulp of the leading term",
     "C12 quick: square-error-bound:unnormalised-operands",
     first_result="missed (HELD): multiply/square were driven with normalised non-overlapping operands only, on which the change stays below one ulp",
     strengthened="multiply/square also on overlapping mixed-sign lists with zeros (float32/float64), where the unchanged code is exact to ~1e-36 ulp")
seed("C13-1", "C13", "float2mpf passes the context's precision instead of the dtype's to from_man_exp (rebased onto HEAD after fix 5adbe05 of the neighbouring defect)",
     "an mpmath context with fewer bits than the value needs (prec < 53 for float64)",
     "C13 quick: float2mpf-value, mpf-roundtrip:low-precision-context",
     first_result="missed (HELD): every conversion ran under mp.workprec(1200); the agent's note also exposed the pre-existing loss for float16/float32 (fixed: 5adbe05)",
     strengthened="float2mpf / mpf2float round trips of every value in cloned contexts of 4, 11, 24 and 40 bits")
seed("C13-2", "C13", "bin2float('-0') returns dtype(-0) (integer zero, +0.0) instead of -dtype(0)",
     "only the value -0.0, any dtype", "C13 quick: bin-roundtrip-negzero")
seed("C14-1", "C14", "array fast path of diff_ulp subtracts ordinals in the same-width signed integer type before widening",
     "array form only, opposite-sign pairs whose distance is at least 2^(bits-1)", "C14 quick: array-form")
seed("C14-2", "C14", "flush remap of y tests ix instead of iy",
     "flush_subnormals=True with a zero or subnormal second argument", "C14 quick: flush-symmetry, flush-consistency")

seed("C02-1", "C02", "real_acosh rewritten with one square root: log1p((x-1)*(1+sqrt((x+1)/(x-1))))",
     "exactly x == 1.0 (0 * inf): NaN instead of 0, both dtypes", "C02 quick: real-nan-domain:acosh (neighbourhoods of 1)")
seed("C02-2", "C02", "real_acosh uses log(x + sqrt(x-1)*sqrt(x+1)) instead of the log1p form",
     "x in (1, ~1.03): hundreds of ULP just above 1", "C02 quick: rate-over-3ulp:acosh / real-ulp-bound:acosh")
seed("C16-1", "C16", "fast_exponent_by_squaring: odd exponent returns r2*r instead of r2*x",
     "schemes whose split sizes hit exponents 5, 7, 9-11, 13-15 ...: balanced_dac from degree 10, canonical from degree 5, default only above 500 coefficients",
     "C16 quick: poly.fast_polynomial-value")
seed("C16-2", "C16", "divmod early exit len(P) <= len(D)", "deg P == deg D", "C16 quick: divmod-degree")
seed("C16-3", "C16", "divmod(reverse=True) returns the remainder un-reversed", "reverse=True, divisor degree >= 2, non-palindromic remainder", "C16 quick: divmod-identity")
seed("C17-1", "C17", "one wrong digit in the ln2inv constant used to choose k (relative error 6.9e-5)",
     "float64, |x| > 500, x/ln2 between 0.05 and 0.07 below a rounding tie: |r+c| up to 0.571 ln2",
     "C17 quick: exp:remainder-bound (tie-band workload)",
     first_result="missed (HELD): near-tie inputs were +-8 ulps around (k+1/2) ln2, where a wrong k still leaves |r| ~ 0.5 ln2 < 0.55 ln2; random bits rarely fall in the failing band",
     strengthened="a band workload x = (k + 1/2 + d) c with d uniform in +-0.12 and log-uniform down to 2^-40, half of the k from the top 30 % of the domain, for ln2 and pi/2")
seed("C17-2", "C17", "trig shortcut for small |x| lost the factor two on the negative side", "-pi/2 < x <= -pi/4", "C17 quick: trig:remainder-bound, trig:reconstruction (float16 exhaustive)")
seed("C18-1", "C18", "rounding mode OR-ed into MXCSR without clearing the previous mode bits", "a non-nearest rounding mode active on entry (nested contexts)",
     "C18 quick: enter-changes-unrequested-bits / requested-mode-not-established sites of the history monitor")
seed("C18-2", "C18", "a context object keeps the MXCSR snapshot of its first entry", "one context object (or decorated function) used twice under different ambient control bits",
     "C18 quick: exit-does-not-restore* (pre-created and re-used context objects are part of the history trees)")
seed("C19-1", "C19", "vectorised offset arithmetic in uint32 for float32 when more than 1024 samples are requested with user bounds",
     "float32, user bounds, size > 65536", "C19 quick: real_samples-not-ulp-uniform+upper-bound-missing (task_large: 100000 and 300000 samples)")
seed("C19-2", "C19", "complex_pair_samples passes max_imag_values[0] to the second operand",
     "per-operand tuple bounds for the imaginary parts that differ between the operands",
     "C19 quick: complex_pair_samples-product, product-exception",
     first_result="missed (HELD): the product workload passed one scalar bound for every dimension",
     strengthened="per-dimension bounds passed as tuples (None members included), ranges across zero, complex pair with four independent bounds")

seed("C15-1", "C15", "mpf2float shifts out all mantissa bits below the leading 2p+2 before rounding, without a sticky bit",
     "an mpf with a long mantissa lying within 2^-(p+2) ulp above a rounding tie whose p-bit prefix is even", "C15 quick: mpf2float-rounding-normal (exact-rational oracle on tie-adjacent values with long tails)")
seed("C15-2", "C15", "vectorize_with_mpmath: an unspecified flush_subnormals (truthy sentinel) reaches mpf2float as 'flush'",
     "a function evaluated through the backend without a flush_subnormals argument and a subnormal result", "C15 quick: backend-subnormal-result (flush: unspecified / False / True are all driven)")

# ---- second round: agents were additionally told which changes had already been made and given a list of untried areas
seed("C04-r2-1", "C04", "nested-select flattening: the 'a is y' template no longer negates cond1", "select(c, select(c1, Y, b), Y) with the same object Y and values where c holds, c1 differs", "C04 quick: program:float:whole:*, step:exact:select")
seed("C04-r2-2", "C04", "logical_and absorption x and (a and b) returns x when x is a or b", "c1 and (c1 and c2) with c1 true and c2 false", "C04 quick: step:exact:logical_and")
seed("C04-r2-3", "C04", "relational table rows (nonnegative, nonpositive) / (nonpositive, nonnegative): == False, != True", "abs(x) == -abs(y) style comparisons with both sides zero", "C04 quick: step / program monitors (all-zero structured assignment)")
seed("C05-r2-1", "C05", "Python target negative printed as -{0} without parentheses", "negative of an inline add / subtract / select, Python target", "C05 quick: python:value-differs")
seed("C05-r2-2", "C05", "C++ expm1 printed unqualified (resolves to ::expm1(double) for float)", "float32 graphs containing expm1: 1 ulp differences", "C05 quick: cpp:value-differs:float32 (libm reference follows the C++ overload actually selected for std::)")
seed("C05-r2-3", "C05", "NumPy minimum printed as min({1}, {0})", "operands that tie (+0 / -0) or exactly one NaN",
     "C05 quick: numpy:value-differs",
     first_result="missed (HELD): results of graphs containing maximum / minimum were exempted whenever an input was zero, NaN or two inputs had equal magnitude (an exemption written when the reference semantics looked ambiguous)",
     strengthened="the exemption is retired: the reference interpreters implement exactly the primitive each target prints (Python's builtin max/min, std::max/std::min) in the printed operand order")
seed("C11-r2-1", "C11", "is_power_of_two default constants derived from nmant instead of the precision (the 1-or-3 predicate's constants)", "x = +-3 * 2^k with the default Q, P", "C11 quick: is_power_of_two (default variant)")
seed("C11-r2-2", "C11", "fma a9: the possibly_zero_z guard tests sh == 0 instead of z == 0", "algorithm a9, possibly_zero_z=True, z == -RN(x*y) exactly with an inexact product", "C11 quick: fma_real-bound:a9:fo=0:pz=1")
seed("C11-r2-3", "C11", "apmath.py copy of fma a8 returns sh instead of zh in one select arm", "exact remainder chains under cancellation (short significands); only the traced apmath.fma copy", "C11 quick: apmath.fma-bound:a8")
seed("C12-r2-1", "C12", "add_2sum overflow guard >= (the same edit as C10-2, judged here through renormalize(fix_overflow=True))", "fix_overflow=True and a partial sum exactly +-largest",
     "C12 quick: renormalize-sum:eager|functional", first_result="missed (HELD): no call passed fix_overflow=True",
     strengthened="renormalize(fix_overflow=True) on one-signed lists with a head at exactly +-largest (the only region where no 2Sum intermediate can overflow) and on lists far below largest")
seed("C12-r2-2", "C12", "subtract negates seq2[:size]", "a size limit smaller than the subtrahend whose dropped terms matter (cancelling heads, leading zeros)",
     "C12 quick: subtract-size-limit-changes-result-with-nothing-to-truncate", first_result="missed (HELD): add / subtract / multiply / square were never called with size=",
     strengthened="for all four operations: a limit >= the number of non-zero items of the unlimited result must reproduce the unlimited result's exact sum; operands include leading zeros and head cancellation")
seed("C12-r2-3", "C12", "multiply breaks out of the order loop once n > size", "operands with leading zeros or head cancellation and a size limit",
     "C12 quick: multiply-size-limit-changes-result-with-nothing-to-truncate", first_result="missed (HELD): see C12-r2-2", strengthened="see C12-r2-2")
seed("C13-r2-1", "C13", "float2expansion subtracts the word without converting it to the input's type", "a Python float input with float16 / float32 words",
     "C13 quick: expansion-route-value:float2expansion / number2expansion", first_result="missed (HELD): only mpf2expansion was driven, and only with NumPy scalars",
     strengthened="float2expansion, fraction2expansion and number2expansion (float, Python float, Fraction, mpf inputs) for every word dtype")
seed("C13-r2-2", "C13", "float2bin counts leading zeros of subnormals through int(math.log2(...))", "19 float64 subnormals per sign with fraction fields 2^k - d (k = 49..52)", "C13 quick: bin-roundtrip (neighbours of the largest subnormal are in the structured values)")
seed("C13-r2-3", "C13", "multiword2mpf sums under workprec(len * precision)", "words that skip zero bits so that n words span more than n*p bits", "C13 quick: multiword-roundtrip")
seed("C16-r2-1", "C16", "taylorat skips zero coefficients without advancing the power of z0", "a zero coefficient below a non-zero one and z0 != 1", "C16 quick: taylorat sites")
seed("C16-r2-2", "C16", "derivative(P, n) uses math.comb(i, n) instead of the falling factorial", "n >= 2", "C16 quick: derivative sites")
seed("C16-r2-3", "C16", "fpa.fast_polynomial 'evaluate as it is' branch drops the top coefficient", "scheme=estrin_dac_scheme in the floating_point_algorithms copy", "C16 quick: fpa.fast_polynomial-value")

seed("C01-r2-1", "C01", "complex_sqrt overflow-rescue formula uses r instead of sqrt(r) for one component", "hypot(x, y) overflows, |Re z| > |Im z|, ratio not within a few ULP of 1 (both components in the top half binade)",
     "C01 quick: ulp-bound:sqrt (W5)", first_result="missed (HELD): huge components were paired with ratios spread over 2^+-(p+2); comparable huge pairs were a handful per run",
     strengthened="workload W5: both components inside a band 2^-3..2^0.5 around one of 16 thresholds (largest, sqrt(largest), largest^(1/4), 1/eps, 1/eps^2, log(largest), sqrt(smallest) ...), the same threshold for both in 65 % of the draws")
seed("C01-r2-2", "C01", "complex_exp overflow path multiplies e2*e2 first", "Re z just above log(largest) with a representable exp(x)cos(y)", "C01 quick: spurious-inf:exp")
seed("C01-r2-3", "C01", "complex_atanh switch threshold moved to sqrt(largest)", "x^2 + y^2 > largest with both components below sqrt(largest)", "C01 quick: ulp-bound:atanh (W5)",
     first_result="missed (HELD): see C01-r2-1", strengthened="see C01-r2-1")
seed("C02-r2-1", "C02", "hypot direct formula guarded by mx < sqrt(largest) (sum of squares overflows)", "comparable arguments with the larger in [sqrt(largest)/sqrt 2, sqrt(largest))", "C02 quick: hypot sites")
seed("C02-r2-2", "C02", "hypot computes mn^2/mx^2 unless the squares underflow to exactly zero", "both arguments between sqrt(smallest subnormal) and sqrt(smallest normal), comparable", "C02 quick: hypot sites")
seed("C02-r2-3", "C02", "real_asin through atan2(x, sqrt(1-x) sqrt(1+x))", "about 40 isolated float32 inputs at exactly 5 ULP; float64 within 2 ULP",
     "C02 thorough: real-ulp-bound:asin (exhaustive float32)", first_result="not caught by the quick tier (HELD): 18 positive float32 values among 2^32 - only enumeration sees them")
seed("C03-r2-1", "C03", "complex_acos real part by reflection pi - atan2(.., |x|) for Re z < 0", "Re z < 0: acosh(z) == +-i acos(z) off by 1 ULP (44 % of complex128 left-half-plane inputs)", "C03 quick: rot:acosh=+-i*acos(z)")
seed("C03-r2-2", "C03", "complex_atanh zero-for-infinite-component guard moved onto the result", "any infinite component: oddness fails in the sign of the zero real part", "C03 quick: odd:atanh (not the zero-component known finding: the input has no zero component)")
seed("C03-r2-3", "C03", "complex_asinh takes its real part from real_asinh on the real axis", "Im z = +-0: asinh(z) == -i asin(iz) off by 1 ULP for 7-9 % of x", "C03 quick: rot:asinh=-i*asin(i*z)")
seed("C06-r2-1", "C06", "StableHLO comparison with a constant on the left printed reversed with the direction negated instead of mirrored", "lt/le/gt/ge(constant, expr)", "C06 quick: stablehlo:operator")
seed("C06-r2-2", "C06", "XLA make_constant replaces a complex like-operand by Real(like)", "a constant like a complex expression (generated graphs only)", "C06 quick: xla_client:arity / like-operand sites")
seed("C06-r2-3", "C06", "StableHLO named-constant line without its {ref}", "a named constant used twice or force-referenced", "C06 quick: stablehlo:reference-before-binding")
seed("C07-r2-1", "C07", "_two_level_intkey of operands with more than two operands keeps only the first and last", "two select / list / apply operands differing in a middle operand under the same parent",
     "C07 quick: alias-different-structure", first_result="missed (HELD): random histories almost never build two compound nodes that differ in exactly one operand and then the same parent over both",
     strengthened="near-duplicate constructions: an existing compound node rebuilt with one operand replaced (any position), the same parent and grand-parent built over original and variant")
seed("C07-r2-2", "C07", "_negative_zeros only recognises Python complex", "numpy.complex64 signed zeros", "C07 quick: alias-constant-signed-zero")
seed("C07-r2-3", "C07", "a symbol's operand-level key is (symbol, name)", "two symbols of one name and different types in one context", "C07 quick: alias-different-structure")
seed("C08-r2-1", "C08", "NumPy make_constant drops the outer cast of finfo-based named constants", "eps/largest/smallest/smallest_subnormal like a complex expression, printed without the rewrite", "C08 quick: emitted-debug-assertion-fires")
seed("C08-r2-2", "C08", "NumPy upcast table maps float64 to float64", "upcast of a float64 value that is referenced or returned",
     "C08 quick: emitted-debug-assertion-fires", first_result="missed (HELD): the generator replaced every upcast of a 64-bit value (float128 was not in the harness's dtype table)",
     strengthened="upcast(float64) -> numpy.longdouble is generated and judged; float128 / complex256 added to the dtype table")
seed("C08-r2-3", "C08", "get_type of real/imag(complex(a, b)) takes the part's type", "real(complex(a: float32, b: float64)) printed without the rewrite",
     "C08 quick: static-vs-runtime:real", first_result="missed (HELD): mixed-precision complex(a, b) was replaced by a + b in the generator and the harness's own make_complex model rejected mixed parts, skipping the graph",
     strengthened="directed shapes (each typing rule directly on symbols, on complex(a, b), on casts, with constants like the other operand) over all 5^n dtype assignments, with and without the rewrite; the accepted mixed pair (float32, float64) is modelled")
seed("C09-r2-1", "C09", "logical_or chains rebuilt from a set of keys", "or-chains of three or more operands (complex atanh) under different hash seeds", "C09 quick: text-differs-from-canonical")
seed("C09-r2-2", "C09", "process-wide memo in toidentifier keyed by value (2 == 2.0 == float32(2))", "an earlier generation that named the same value with another type", "C09 quick: text-differs-from-canonical (histories)")
seed("C09-r2-3", "C09", "free-suffix search in _register_reference continues from a module-level table", "generating the same function twice in one process", "C09 quick: in-process-repetition-differs")
seed("C18-r2-1", "C18", "FZ=False / DAZ=False do not clear a bit that is set on entry", "a context switching FZ or DAZ off inside one that switched it on", "C18 quick: enter-changes-unrequested-bits*")
seed("C18-r2-2", "C18", "__exit__ restores only the bits the context was asked to manage", "a body (or library) that writes the register itself, a non-LIFO inner context",
     "C18 quick: exit-does-not-restore*", first_result="missed (HELD): bodies only did arithmetic and entered further contexts",
     strengthened="bodies that XOR control bits, exception masks and sticky flags into MXCSR (every kind at depth 1 exhaustively, randomly in the trees); a mismatch is repaired before any further floating-point operation (a leaked unmasked exception would otherwise kill the shard with SIGFPE)")
seed("C18-r2-3", "C18", "decorator form without try/finally", "a decorated function that raises", "C18 quick: exit-does-not-restore-after-exception")
seed("C19-r2-1", "C19", "_fix_limit_value treats a falsy scalar bound as unspecified", "a scalar zero bound (0, 0.0, -0.0) given to the pair generators",
     "C19 quick: real_pair_samples-product / complex_pair_samples-product", first_result="missed (HELD): product bounds were drawn as +-2^U(-8,8), never zero",
     strengthened="zero bounds as dtype scalars, Python floats, ints and -0.0 on either side")
seed("C19-r2-2", "C19", "duplicates removed only when subnormals are flushed", "include_subnormal=True, bounds given, more samples than representable values", "C19 quick: real_samples-not-strictly-increasing")
seed("C19-r2-3", "C19", "equal-bounds shortcut before the bounds are normalised", "equal subnormal bounds, bounds coinciding only after normalisation", "C19 quick: real_samples-* bound sites")

seed("C10-r2-1", "C10", "utils.multiply_dekker with an explicit C splits x twice", "the utilities copy called with C=... and x != y", "C10 quick: utils.multiply_dekker-exact")
seed("C10-r2-2", "C10", "algorithms.get_veltkamp_splitter_constant: float16 constant 2^5+1", "the traced algorithms.py copy for float16",
     "C10 quick: algorithms.split_veltkamp-high-width / splitter-constant", first_result="missed (HELD): only the floating_point_algorithms and utils copies were driven",
     strengthened="task_constants: every copy of the constant helper (eager and traced through the NumPy target) for all three dtypes, and the algorithms.py splitter's high-part width")
seed("C10-r2-3", "C10", "mul_dekker overflow guard without abs() (the same edit as C11-1, rebased onto the repaired guard)", "fix_overflow=True, negative product near -largest",
     "C10 quick: fpa.mul_dekker-overflow-guard", first_result="missed (HELD): pairs whose Dekker product may overflow internally were outside the judged domain for every option set",
     strengthened="with fix_overflow=True the internal-overflow region is judged too: the result is the exact pair or the documented fallback (x*y, 0), never non-finite")
seed("C14-r2-1", "C14", "diff_ulp returns 0 early when both arguments are subnormal in flush mode", "flush_subnormals=True, two subnormals that round to different points", "C14 quick: flush-consistency")
seed("C14-r2-2", "C14", "flush remap boundary >= : exactly +-(largest subnormal) collapses onto 0", "flush_subnormals=True and that exact value",
     "C14 quick: flush-map-monotone / flush-map-endpoint", first_result="missed (HELD): the flush map was probed on 300 random subnormal ordinals; one specific value of 2^23 (float32) is never drawn",
     strengthened="the ends of the subnormal range and the tie region are always probed; the largest subnormal must go to the smallest normal, the smallest to zero")
seed("C14-r2-3", "C14", "ulp() exponent clamp off by one", "smallest_normal/2 <= |x| < smallest_normal", "C14 quick: ulp-identity-subnormal")
seed("C17-r2-1", "C17", "trig: sign of the 2Sum correction in r_lo", "about 12 % of arguments with |x| >= pi/4: r + t off by up to 1.66 ULP", "C17 quick: trig:reconstruction")
seed("C17-r2-2", "C17", "trig small-argument shortcut threshold 0.7854 (rounded up pi/4)", "pi/4 < |x| < 0.7854", "C17 quick: trig:reconstruction (neighbours of pi/4)")
seed("C17-r2-3", "C17", "float16 ln2lo constant typo", "float16, k = +-1, 0.3464 <= |x| < 0.5: reconstruction off by 1.23 ULP of x",
     "C17 quick: exp:reconstruction", first_result="missed (HELD): the reconstruction was judged by lattice steps between the rounded values, which accepts up to 1.5 ULP",
     strengthened="both reductions are judged by the real-valued error in ULPs of x (resp. of the remainder), as the statement says")

seed("C15-r2-1", "C15", "(see notes) conversion of tiny negative values returns +0", "values below half the smallest subnormal with a negative sign", "C15 quick: mpf2float-rounding-zero")
seed("C15-r2-2", "C15", "flush threshold table aligned with finfo.minexp (one binade too low for mpmath's exp + bc)", "flush_subnormals=True and a result in [tiny/2, tiny)",
     "C15 quick: mpf2float-flush-requested / backend-flush-requested-result", first_result="missed (HELD): results in the subnormal range were skipped whenever flushing had been requested",
     strengthened="explicitly requested flushing is judged: a value that rounded to p bits is below the smallest normal must come back as a signed zero")
seed("C15-r2-3", "C15", "mpc results converted through Python complex", "complex64 components within 2^-53 of a float32 tie (double rounding); complex components when flushing is requested",
     "C15 quick: backend-complex-component", first_result="missed (HELD): the backend was driven with real inputs only",
     strengthened="task_backend_complex: identity / conjugate / negate / square on complex64 and complex128 (x*x an exact tie, y tiny), every flush setting, scalar and array forms")

# ---- third round (eight properties): agents knew both earlier lists
seed("C04-r3-1", "C04", "casts of a constant re-typed through the cast node", "deep_first=False and an upcast / downcast directly over a named constant or a literal that is not representable in the narrower type",
     "C04 quick: step:float:* on the cast rules", first_result="missed (HELD): casts were only generated around arbitrary sub-expressions, rarely directly over a constant",
     strengthened="a third of the cast sites put a single cast directly over a named constant / non-representable literal")
seed("C04-r3-2", "C04", "x / 2^n -> x * (1/2^n) also for subnormal powers of two", "a divisor that is a subnormal power of two (1/c overflows)", "C04 quick: program:float:whole:*")
seed("C04-r3-3", "C04", "sign inference for minimum/maximum with one 'or' for 'and'", "minimum(strictly positive, unknown sign) compared with 0", "C04 quick: step:exact:gt, sign-fact monitor")
seed("C05-r3-1", "C05", "C++ real constants like a complex128 value printed with float32 digits", "cpp, complex128, constants whose float32 rounding prints differently (1/3, pi, log 2)",
     "C05 quick: cpp:value-differs:float64", first_result="missed (HELD): the literals like complex values were short (0.1, 2.0, 1.5), and the first directed program multiplied complex by complex, which the C++ reference does not model",
     strengthened="long literals (1/3, pi, ln 2, 17-digit) like complex64 / complex128 values, combined by sums only")
seed("C05-r3-2", "C05", "make_complex in the NumPy source header composes r + 1j*i", "emitted text loaded after the target's own header; infinite / NaN / negative-zero parts",
     "C05 quick: numpy:value-differs", first_result="missed (HELD): the harness supplied utils.make_complex itself instead of executing the target's header",
     strengthened="emitted Python / NumPy text is executed after exec(target.source_file_header), as a generated file would be")
seed("C05-r3-3", "C05", "C++ select template without its enclosing parentheses", "sign(select(c, a, b)) printed inline", "C05 quick: cpp:value-differs (directed sign-of-select)")
seed("C06-r3-1", "C06", "StableHLO Pat<> header takes every argument's element class from the first", "mixed real / complex signatures", "C06 quick: stablehlo:argument-element-type")
seed("C06-r3-2", "C06", "StableHLO integer-valued float constants spelled as integers (-0.0 becomes \"0\")", "a -0.0 constant", "C06 quick: stablehlo:constant-value")
seed("C06-r3-3", "C06", "XLA template header emitted only 'when needed' (misses numeric_limits<T> inside an XlaOp initialiser)", "a named constant used only inside an XlaOp local (shipped complex_exp)",
     "C06 quick: xla_client:type-name-not-declared", first_result="missed (HELD): the parser accepted an absent template header and nothing related type names in the body to it",
     strengthened="every type name used in the body (numeric_limits<T>, 'T name = ..' locals) must be XlaOp or the declared template parameter")
seed("C08-r3-1", "C08", "Type.max: a float widens a complex only as the right operand", "(float64, complex64) in that order", "C08 quick: static-vs-runtime:*")
seed("C08-r3-2", "C08", "copysign typed like its first operand", "a sign operand wider than the magnitude", "C08 quick: static-vs-runtime:copysign")
seed("C08-r3-3", "C08", "make_ref compares is_same_kind instead of is_same", "one literal like operands of different width, the wider printed first, the narrower branch assigned or returned",
     "C08 quick: emitted-debug-assertion-fires", first_result="missed (HELD): no generated program used one literal like operands of two widths with both uses referenced",
     strengthened="directed shapes 'literal like both widths' (either order of construction) over all dtype pairs")
seed("C10-r3-1", "C10", "split_veltkamp scales only when C*x would overflow, by a rounded quotient", "x = +-RN(largest/C) in float16 / float64", "C10 quick: fpa.mul_dekker-exact, apmath.two_prod-exact, overflow-guard")
seed("C10-r3-2", "C10", "utils.add_2sum symmetric form", "sums carrying into the next binade with a rounding error of half an ulp or more", "C10 quick: utils.add_2sum-exact")
seed("C10-r3-3", "C10", "apmath.split exposes scale with the default False", "|a| > largest/C through the wrapper",
     "C10 quick: apmath.split-sum", first_result="missed (HELD): the wrapper was only judged through the contracted function it calls, with the arguments it passes",
     strengthened="apmath.split is judged at its own boundary as the scaling splitter")
seed("C11-r3-1", "C11", "traced apmath.fma (a7): the first two_sum loses fix_overflow", "z = +-largest exactly and RN(x*y) = (4j+3) 2^(emax-p) of the opposite sign", "C11 quick: apmath.fma-bound:a7:fo=1")
seed("C11-r3-2", "C11", "add_dw adds gl twice instead of tl", "add_4sum under two-level cancellation", "C11 quick: add_4sum-bound")
seed("C11-r3-3", "C11", "fma_real 'apmath': fix_overflow passed positionally into scale", "products near largest / large |x| without scaling", "C11 quick: fma_real-bound:apmath")
seed("C12-r3-1", "C12", "square skips its last diagonal", "leading zero or overlapping words", "C12 quick: square-error-bound:unnormalised-operands")
seed("C12-r3-2", "C12", "per-dtype length cap one too small", "float16 results that need exactly 4 words", "C12 quick: add-not-exact, subtract-not-exact, renormalize-sum")
seed("C12-r3-3", "C12", "utils.overlapping asymmetric (|y| >= ulp(x) twice)", "the smaller item passed first",
     "C12 quick: utils.overlapping", first_result="missed (HELD): the ASSUME text promised a cross-check of the package's overlap predicate that did not exist",
     strengthened="utils.overlapping is monitored on neighbouring items in both orders against |x| >= ulp(y) and |y| >= ulp(x)")
seed("C13-r3-1", "C13", "mpf2multiword loses the sign of x", "any negative value", "C13 quick: multiword-roundtrip")
seed("C13-r3-2", "C13", "number2float routes floats and ints through fractions", "-0.0, NaN, infinities of a narrower type",
     "C13 quick: number2float-identity", first_result="missed (HELD): number2float was not driven", strengthened="number2float to the same and to wider types for every value (bit identity)")
seed("C13-r3-3", "C13", "expansion2mpf stops at the first zero word", "[hi, 0, lo]",
     "C13 quick: expansion2mpf-with-zero-words", first_result="missed (HELD): only expansions produced by mpf2expansion were converted back", strengthened="zero words inserted in front, in the middle and at the end")

# round 3, second batch (properties C01, C02, C03, C07, C09, C14, C15)
seed("C01-r3-1", "C01", "asin_acos_kernel: the x >= 1 split of a - 1 becomes x > 1", "|Re z| == 1 exactly with Im z = 0 or 0 < |Im z| < sqrt(2 smallest normal)", "C01 quick: ulp-bound:asin / asinh (special-value lattice and W4)")
seed("C02-r3-1", "C02", "real_acos through a Dekker square whose splitter constant is float32's 2^12+1 for every dtype", "float64 only, 1 - |x| < 0.02 (6 ULP at 0.99, 1e7 ULP at 1 - 6.5e-9)",
     "C02 quick: real-ulp-bound:acos, rate-over-3ulp:acos (float64 log-uniform sweep and threshold-approach points)",
     first_result="missed (HELD): float64 was judged on 1500 random bit patterns + neighbourhoods per shard by the scalar oracle; none within 2% of 1",
     strengthened="float64 judged in bulk: long double libm as tier 1, the multiprecision oracle for every doubtful point; 2 x 400 000 log-uniform points (2^-70..2^70), full-range sweep, t(1 +- 2^-j u) for 14 thresholds and every j < p")
seed("C02-r3-2", "C02", "real_asinh switches to log 2 + log|x| at a per-dtype 2^(p-2) whose float64 entry is a copy of float32's", "float64, 2^22 <= |x| < 4.9e6 (7-8 ULP)",
     "C02 quick: real-ulp-bound:asinh, rate-over-3ulp:asinh (float64 log-uniform sweep)", first_result="missed (HELD): as C02-r3-1, no float64 sample in the band", strengthened="as C02-r3-1")
seed("C02-r3-3", "C02", "absolute as select(z < 0, -z, z)", "x = -0.0: the result has the sign bit set", "C02 quick: real-zero-sign:absolute",
     first_result="missed (HELD): ULP distance between -0.0 and +0.0 is 0", strengthened="zero results of absolute / square must have the sign bit clear (the odd functions are deliberately not judged on the sign of a zero, see DESIGN)")
seed("C03-r3-1", "C03", "complex_log orders the two squares of the fast two-sum by y > |x| instead of |y| > |x|", "Im z < 0, |Im z| > |Re z|, |z| within 1e-7..1e-2 (complex64) of the unit circle", "C03 quick: conj:log2, conj:log10, conj:log")
seed("C03-r3-2", "C03", "real_asinh: the safe_min_limit branch tests x instead of |x|", "a context with the documented tuning parameter safe_min_limit set, |x| above it", "C03 quick: odd-real:asinh:parameterised",
     first_result="missed (HELD): only default-parameter contexts were expanded", strengthened="oddness of the real algorithms judged under 7 settings of safe_min_limit / safe_max_limit_coefficient")
seed("C07-r3-1", "C07", "key of a numpy floating constant built from float(value)", "two numpy.longdouble constants that round to the same double (or both overflow / underflow)", "C07 quick: alias-constant-value-or-type",
     first_result="missed (HELD): no long double (nor last-bit neighbour) values among the generated constants", strengthened="long double values differing beyond 53 bits / beyond the double range, nextafter neighbours in every width, 2^53 / 2^64 +- 1 integers; long double keys exclude the padding bytes")
seed("C07-r3-3", "C07", "Type.fromobject maps uintN spellings to the signless integer type", "an unsigned and the signed type of one width used for same-named symbols / equal constants", "C07 quick: aliased-different-type:symbol / :constant",
     first_result="not run before the strengthening (the structural key is read off the result, where the two types are already one)", strengthened="request-level monitor: (name, requested sized type) -> object, over every spelling (strings and numpy classes)")
seed("C09-r3-1", "C09", "implementations found in the context paths memoised process-wide by the paths' __name__", "two provider objects with one __name__ and different implementations, one process", "C09 quick: text-differs-from-canonical (user:prov1 / user:prov2)",
     first_result="missed (HELD): every context used paths=[algorithms]", strengthened="two same-named provider classes with different square() among the generated keys")
seed("C09-r3-2", "C09", "eq/ne operand order of unorderable keys decided by hash()", "eq / ne between a named constant and a number other than 0/1, different PYTHONHASHSEED", "C09 quick: text-differs-from-canonical (user:named_cmp)",
     first_result="missed (HELD): no generated key compared a named constant with a number", strengthened="user function with four such comparisons among the keys")
seed("C09-r3-3", "C09", "alternate constant context shared across contexts", "xla_client, two functions sharing a constant subexpression in one process", "C09 quick: text-differs-from-canonical")
# C14-r3-1 (complex diff_ulp drops flush_subnormals for the imaginary parts) is NOT kept: with it the unedited suite gives "20 failed, 1332 passed" (twice,
# in separate scratch worktrees) - it does not pass the existing tests.  The law it prompted (complex distance in flush mode) stays in C14 and fires on it.
seed("C14-r3-2", "C14", "module default flush mode captured at import (default argument)", "utils.default_flush_subnormals assigned at run time, mode unspecified at the call", "C14 quick: default-flush-switch",
     first_result="missed (HELD): the switch was never toggled", strengthened="unspecified mode follows the module-level switch as it is at call time (both values, diff_ulp and diff_log2ulp)")
seed("C14-r3-3", "C14", "diff_log2ulp takes the bit length through math.frexp", "float64 distances within 2^-54 (relative) below a power of two >= 2^54", "C14 quick: log2ulp")
seed("C15-r3-1", "C15", "array inputs converted in memory order (ravel('K')), results placed in index order", "arrays with ndim >= 2 that are not C-contiguous (Fortran copies, transposes)", "C15 quick: backend-result (forms 3/4: non-contiguous layouts)",
     first_result="missed (HELD): only 1-D arrays, scalars and .call() lists", strengthened="Fortran-ordered and axes-permuted 2-D / 3-D inputs, result[i] judged against input[i]")
seed("C15-r3-2", "C15", "fractional extra_prec_multiplier truncated before it is applied", "extra_prec_multiplier 0.5 / 0.75 / 2.5 and a function needing the working precision", "C15 quick: backend-result (sqm1 under fractional settings)",
     first_result="missed (HELD): integer multipliers only", strengthened="x*x - 1 on inputs whose square fits exactly p + int(p m) + extra bits, under three fractional settings")
seed("C15-r3-3", "C15", "float16 evaluated in a 24-bit context and rounded a second time", "float16, default settings, the handful of inputs whose value sits next to an 11-bit tie (exp 2, log 1, arctan 3, arcsinh 2 inputs)", "C15 quick: backend-float16-default-result",
     first_result="missed (HELD): transcendental functions were judged only with >= 2p extra bits", strengthened="exp, log, arctan, arcsinh, sqrt at default settings on every normal float16 input (exhaustive)")

# round 4 (C16 - C19 only, launched in the last hours; agents had 75 minutes)
seed("C16-r4-1", "C16", "polynomial.add through zip_longest ignores reverse", "reverse=True and operands of different length (or a scalar operand)", "C16 quick: add")
seed("C16-r4-2", "C16", "polynomial.rpolynomial breaks out of its loop at a zero ratio", "a ratio list with a zero at index >= 1 (ratio form of a polynomial with a vanishing leading coefficient)", "C16 quick: poly.rpolynomial-value",
     first_result="missed (HELD): ratio form was exercised for all-nonzero coefficient lists only", strengthened="ratio lists with one or two zero ratios at random positions (poly and fpa rpolynomial, both directions), and asrpolynomial of a list with a vanishing leading coefficient")
seed("C16-r4-3", "C16", "fpa.horner strips 'vanishing highest order terms' before the reverse split", "reverse=True (the default) and trailing zero coefficients", "C16 quick: fpa.horner-value")
seed("C17-r4-1", "C17", "trig reduction on |x| with the sign restored on k and r but not on the tail word", "x < 0, |x| >= pi/4", "C17 quick: trig:k-range / trig:reconstruction")
seed("C17-r4-2", "C17", "float64 copy of 2/pi rounded to 1064 instead of 1074 bits", "float64, huge |x| whose reduction reaches the last words", "C17 quick: trig:reconstruction (not the known finding: the error is above its signature)")
seed("C18-r4-1", "C18", "'nothing to change' fast path also skips the restore on exit", "a context that requests the state already in effect, body changes MXCSR", "C18 quick: exit-does-not-restore*")
seed("C18-r4-2", "C18", "re-entrant context objects through a depth counter (only the outermost exit restores)", "one context object entered while active", "C18 quick: exit-does-not-restore*")
seed("C18-r4-3", "C18", "rounding-mode table deduplicated with the up / down encodings exchanged", "round='upward' / 'downward'", "C18 quick: enter-changes-unrequested-bits*")
seed("C19-r4-1", "C19", "real_samples: upper clamp of the negative share uses num instead of rest", "user bounds straddling zero with few positive values available", "C19 quick: real_samples-exception / size sites")

# seeds whose original patch stopped applying after a later "fix:" commit touched the same lines: the same change re-made by hand on the current HEAD
REBASED = {"C11-1": "fix 981e64c (mul_dekker assume_fma + fix_overflow) rewrote the lines around the dropped abs()",
           "C09-1": "fix fbe2df5 (owners of joined reference names) added lines where the digest shortening was inserted",
           "C13-r2-3": "the multiword2mpf([]) fix added an early return in the function the change wraps in workprec"}

for id_, meta in T.items():
    if id_ in REBASED:
        meta["rebased"] = dict(why=REBASED[id_], original_patch="patch-original.diff", note="patch.diff is the same change applied to the current HEAD; confirmed again there")
    d = os.path.join(ROOT, id_)
    if not os.path.isdir(d):
        continue
    log = os.path.join(d, "confirm.log")
    conf = {}
    if os.path.exists(log):
        for ln in open(log).read().splitlines():
            if "=" in ln and not ln.startswith(("=", "SKIPPED", "FAILED", "rerun_alone")):
                k, v = ln.split("=", 1)
                conf[k.strip()] = v.strip()
            elif " passed" in ln and ln.startswith("="):
                conf["test_suite_with_patch"] = ln.strip("= ").strip()
            elif ln.startswith("FAILED"):
                conf.setdefault("failed_tests", []).append(ln.split()[1])
            elif ln.startswith("rerun_alone"):
                conf.setdefault("failed_tests_rerun_alone", []).append(ln[len("rerun_alone "):])
    meta["confirmed_by_me"] = dict(how="tools/confirm_seed.sh: scratch worktree of /repo HEAD under /var/tmp (removed afterwards): demo without patch, git apply, demo with patch, unedited test suite with patch (-n 8, /venv/bin on PATH so the 3 clang-format tests pass)", **conf)
    meta["files"] = sorted(f for f in os.listdir(d) if f != "meta.json")
    meta["how_to_rerun"] = f"tools/try_seed.sh seeded/{id_}/patch.diff {meta['property']} quick   (applies to /repo, runs the check with VERIF_EVIDENCE_SKIP=1, reverts)"
    json.dump(meta, open(os.path.join(d, "meta.json"), "w"), indent=1)
    print(id_, conf.get("demo_without_patch_exit"), conf.get("demo_with_patch_exit"), conf.get("test_suite_with_patch", "")[:60])
