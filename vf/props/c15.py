"""C15 — multiprecision reference values are rounded correctly to the target type.

Contract on utils.mpf2float (also fires on the internal call from vectorize_with_mpmath.mptonp) with the exact
rational RN oracle of vf.exact; backend monitor drives vectorize_with_mpmath with flush_subnormals in
{unspecified, False, True} x extra-precision settings on functions whose exact / Ziv-certified value is known.
"""
from fractions import Fraction as F
import warnings
import math
import numpy
import mpmath

from .. import exact, gen, contracts
from ..core import unfl

LEVEL = "exploration"
RULE = ("directed mpf values man*2^exp: ties (midpoint +- 2^-k at precisions p+1, p+2, 2p, 4p), just below/at/above the overflow threshold, "
        "around half the smallest subnormal, random mantissas at any exponent in [emin-200, emax+200], precisions >= p; each is converted by the "
        "real mpf2float and compared with RN(exact rational). Backend: identity/negate/abs/double/square/sqrt/exp through vectorize_with_mpmath on "
        "hostile float inputs (subnormals incl.) for every flush/extra-precision setting. distinct_nontrivial = distinct (dtype, construction kind, "
        "result class, precision class) tuples for conversions whose exact value is not representable, plus (function, flush, extra, input class) for the backend")
ASSUME = ["mpmath mpf (sign, man, exp) is the exact value; mpmath +,-,*,sqrt are correctly rounded at the working precision",
          "for sqrt/exp the reference is certified Ziv-style at two precisions; uncertifiable cases are skipped and counted"]
REQUIRE = ["evaluations", "contract:utils.mpf2float:evaluated", "judged:normal", "judged:overflow", "judged:zero", "backend:judged",
           "backend:subnormal-in", "backend:flush-unspecified", "backend:flush-True", "backend:flush-False",
           "backend:working-precision-judged", "backend:layouts-judged", "backend:float16-default-judged"]


def mpf_value(m):
    sign, man, exp, bc = m._mpf_
    return F(int(man) * (-1 if sign else 1)) * F(2) ** int(exp)


def result_class(q, dt):
    f = exact.fmt(dt)
    a = abs(q)
    if a >= f.overflow_threshold:
        return "overflow"
    if a < f.sub / 2:
        return "zero"
    r = exact.RN(q, dt)
    if abs(exact.frac(r)) >= f.min_normal:
        return "normal"
    return "subnormal"  # outside the statement for the conversion clause


def judge_mpf2float(rec, dt, q, r, how):
    """q exact rational, r the package's conversion"""
    cls = result_class(q, dt)
    f = exact.fmt(dt)
    if cls == "subnormal":
        rec.count("judged:subnormal-skipped")
        return cls
    e = exact.RN(q, dt)
    if cls == "zero":
        ok = bool(r == 0) and (q == 0 or bool(numpy.signbit(r)) == (q < 0))
    elif cls == "overflow":
        ok = bool(numpy.isinf(r)) and bool(r < 0) == (q < 0)
    else:
        ok = exact.bits_of(dt(r)) == exact.bits_of(e)
    ok = ok and type(r) is dt
    rec.count("judged:" + cls)
    if not ok:
        rec.violation("mpf2float-rounding-" + cls, dict(dtype=numpy.dtype(dt).name, q=str(q), got=r, expected=e, how=how))
    return cls


def install(rec, utils):
    def post(a, k, r):
        dt, m = a[0], a[1]
        if isinstance(m, list):
            raise contracts.Skip("list")
        if k.get("prec") is not None or k.get("rounding") is not None or len(a) > 3:
            raise contracts.Skip("options")
        fl = k.get("flush_subnormals", a[2] if len(a) > 2 else False)
        if not m.context.isfinite(m):
            if m.context.isnan(m):
                ok = bool(numpy.isnan(r))
            else:
                ok = bool(numpy.isinf(r)) and bool(r < 0) == bool(m < 0)
            if not ok:
                rec.violation("mpf2float-nonfinite", dict(dtype=numpy.dtype(dt).name, mpf=str(m._mpf_), got=r))
            return
        q = mpf_value(m)
        cls = result_class(q, dt)
        if fl:
            # flushing explicitly requested: a value that, rounded to the precision of the type, is still below the smallest normal becomes a signed
            # zero; everything else converts as usual
            f_ = exact.fmt(dt)
            if q != 0 and abs(round_to_precision(q, f_.p)) < f_.min_normal:
                rec.count("flush-requested:judged")
                ok = bool(r == 0) and bool(numpy.signbit(r)) == bool(q < 0)
                if not ok:
                    rec.violation("mpf2float-flush-requested", dict(dtype=numpy.dtype(dt).name, q=str(q) if len(str(q)) < 80 else f"{float(q)!r}~", got=r, expected="-0.0" if q < 0 else "0.0"))
                return
        judge_mpf2float(rec, dt, q, r, "contract")

    contracts.attach(utils, "mpf2float", post, rec, site="utils.mpf2float")


def round_to_precision(q, p):
    """q (Fraction, non-zero) rounded to p significant bits, ties to even, unbounded exponent"""
    from fractions import Fraction as F
    import math

    a = abs(q)
    e = a.numerator.bit_length() - a.denominator.bit_length()
    if F(2) ** e > a:
        e -= 1
    scale = F(2) ** (e - p + 1)
    n = a / scale
    fl_ = n.numerator // n.denominator
    rem = n - fl_
    if rem > F(1, 2) or (rem == F(1, 2) and fl_ % 2 == 1):
        fl_ += 1
    v = fl_ * scale
    return v if q > 0 else -v


def directed(rng, dt, n):
    """yield (kind, precision-class, Fraction q)"""
    f = exact.fmt(dt)
    p = f.p
    for i in range(n):
        kind = ["mid", "mid+", "mid-", "exact", "over", "zero-edge", "random", "random-wide", "sub-tie"][int(rng.integers(0, 9))]
        e = int(rng.integers(f.emin, f.emax + 1))
        m = int(rng.integers(1 << (p - 1), 1 << p))
        if rng.random() < 0.2:
            m = [1 << (p - 1), (1 << p) - 1, (1 << (p - 1)) + 1, (1 << p) - 2][int(rng.integers(0, 4))]
        base = F(m) * F(2) ** (e - p + 1)  # in [2^e, 2^(e+1))
        half = F(2) ** (e - p)
        k = [1, 2, p, 3 * p, int(rng.integers(3, 400))][int(rng.integers(0, 5))]
        if kind == "mid":
            q = base + half
        elif kind == "mid+":
            q = base + half + half / F(2) ** k
        elif kind == "mid-":
            q = base + half - half / F(2) ** k
        elif kind == "exact":
            q = base
        elif kind == "over":
            q = f.overflow_threshold + int(rng.integers(-2, 3)) * F(2) ** (f.emax - p - k)
            if rng.random() < 0.2:
                q = f.max + F(2) ** (f.emax - p - int(rng.integers(0, 3)))  # between max and the threshold
        elif kind == "zero-edge":
            q = f.sub / 2 + int(rng.integers(-2, 1)) * f.sub / F(2) ** (k + 1)
            if q <= 0:
                q = f.sub / F(2) ** k
        elif kind == "sub-tie":
            q = (int(rng.integers(0, 1 << (p - 1))) + F(1, 2)) * f.sub
        elif kind == "random":
            bits = int(rng.integers(p, 5 * p))
            q = F(int(rng.integers(1 << 62, 1 << 63)) | 1) / F(2) ** 62 * F(2) ** e
            q = F(int(q * F(2) ** (bits - e)), 1) / F(2) ** (bits - e) if bits > 0 else q
        else:
            ee = int(rng.integers(f.emin - 200, f.emax + 201))
            q = F(int(rng.integers(1 << 62, 1 << 63)) | 1) * F(2) ** (ee - 62)
        if rng.random() < 0.5:
            q = -q
        yield kind, ("p+1" if k == 1 else "p+2" if k == 2 else "2p" if k == p else "wide"), q


def to_mpf(q, extra=16):
    prec = max(q.numerator.bit_length() + q.denominator.bit_length() + extra, 64)
    ctx = mpmath.mp.clone()
    ctx.prec = prec
    x = ctx.mpf(q.numerator) / ctx.mpf(q.denominator)
    assert mpf_value(x) == q
    return x


def task_directed(params, rec):
    from functional_algorithms import utils

    install(rec, utils)
    dt = getattr(numpy, params["dtype"])
    rng = gen.rng_for(params["seed"], 15, params["shard"], exact.fmt(dt).bits)
    for kind, pc, q in directed(rng, dt, params["n"]):
        x = to_mpf(q)
        rec.count("evaluations")
        try:
            r = utils.mpf2float(dt, x)
        except Exception as e:
            rec.violation("mpf2float-exception", dict(dtype=params["dtype"], q=str(q), exc=f"{type(e).__name__}: {e}"[:200]))
            continue
        cls = result_class(q, dt)
        if not exact.is_representable(q, dt):
            rec.cls(params["dtype"], kind, cls, pc)
        if rec.counters["evaluations"] <= 2:
            rec.sample(dict(dtype=params["dtype"], kind=kind, q=str(q), result=r))
    contracts.detach_all()


# ---------------------------------------------------------------- backend monitor
_CTX = {}


def certified_rn(fn_mp, x, dt):
    """Ziv: evaluate fn on exact float x at two precisions; return RN or None if not certifiable"""
    p = exact.fmt(dt).p
    prev = None
    for prec in (4 * p + 64, 8 * p + 128, 16 * p + 256):
        ctx = _CTX.get(prec)
        if ctx is None:
            ctx = _CTX[prec] = mpmath.mp.clone()
            ctx.prec = prec
        xv = ctx.mpf(exact.frac(x).numerator) / ctx.mpf(exact.frac(x).denominator)
        v = fn_mp(ctx, xv)
        if not ctx.isfinite(v):
            return None
        q = mpf_value(v)
        # perturb by the evaluation error bound (2^-(prec-8) relative) both ways
        lo, hi = q - abs(q) / F(2) ** (prec - 8), q + abs(q) / F(2) ** (prec - 8)
        rl, rh = exact.RN(lo, dt), exact.RN(hi, dt)
        if exact.bits_of(rl) == exact.bits_of(rh):
            return rl, q
    return None


FUNCS = {
    # name: (python callable applied to mp numbers, exact rational of the result or None, needs extra precision?)
    "identity": (lambda x: x, lambda q: q, False),
    "negate": (lambda x: -x, lambda q: -q, False),
    "abs": (lambda x: abs(x), lambda q: abs(q), False),
    "double": (lambda x: x + x, lambda q: 2 * q, False),
    "square": (lambda x: x * x, lambda q: q * q, "exactprod"),
    "sqrt": (lambda x: x.context.sqrt(x) if x >= 0 else x, None, "ziv"),
    "exp": (lambda x: x.context.exp(x), None, "ziv"),
}
FUNCS["sqm1"] = (lambda x: x * x - 1, lambda q: q * q - 1, "fits")
SETTINGS = [dict(), dict(extra_prec=5), dict(extra_prec_multiplier=1), dict(extra_prec_multiplier=2, extra_prec=7), dict(extra_prec_multiplier=20),
            dict(extra_prec_multiplier=0.5), dict(extra_prec_multiplier=0.75, extra_prec=2), dict(extra_prec_multiplier=2.5, extra_prec=3)]


def short_near_one(rng, dt, bits, count):
    """x in [0.5, 2) with at most `bits` significant bits, clustered at 1 +- k 2^-s: x*x is exact in 2*bits bits and x*x - 1 is then exact as well
    (1 is a multiple of the last place of x*x and the difference is smaller in magnitude)"""
    out = []
    for _ in range(count):
        s_ = int(rng.integers(2, bits))
        k = int(rng.integers(1, 1 << min(s_ - 1, 12))) | 1
        x = 1 + (k if rng.random() < 0.5 else -k) * 2.0 ** -s_
        if not 0.5 <= x < 2:
            x = 1 + 2.0 ** -s_
        out.append(x)
    a = numpy.array(out, dtype=numpy.float64).astype(dt)
    return a


def task_backend(params, rec):
    from functional_algorithms import utils

    install(rec, utils)
    dt = getattr(numpy, params["dtype"])
    f = exact.fmt(dt)
    rng = gen.rng_for(params["seed"], 150, params["shard"], f.bits)
    n = params["n"]
    xs = gen.hostile_values(rng, dt, n)
    so = rng.integers(-(1 << (f.p - 1)), (1 << (f.p - 1)) + 1, size=n)
    xs = numpy.where(rng.random(n) < 0.35, exact.from_ordinal_arr(dt, so), xs).astype(dt)
    for fname, (fn, exq, need) in FUNCS.items():
        for si, st in enumerate(SETTINGS):
            extra_bits_min = int(f.p * st.get("extra_prec_multiplier", 0)) + st.get("extra_prec", 0)
            if need == "exactprod" and extra_bits_min < f.p:
                continue  # the product would be rounded twice: not the backend's plumbing
            if need == "ziv" and extra_bits_min < 2 * f.p:
                continue
            if need == "fits" and extra_bits_min < 4:
                continue
            for flush in ("unspecified", False, True):
                kw = dict(st)
                if flush != "unspecified":
                    kw["flush_subnormals"] = flush
                vf = utils.vectorize_with_mpmath(fn, **kw)
                # scalar and array call forms, and .call(workers=1)
                form = int(rng.integers(0, 5))
                sel = xs[rng.integers(0, n, size=params["per"])]
                if need == "fits":
                    # inputs whose square fits the working precision the settings ask for (p + extra bits): with less than that the product is rounded
                    sel = short_near_one(rng, dt, (f.p + extra_bits_min) // 2, params["per"])
                    rec.count("backend:working-precision-judged", len(sel))
                if fname == "sqrt":
                    sel = numpy.abs(sel)
                if fname == "exp":
                    lim = dt(numpy.log(numpy.finfo(dt).max)) * dt(1.5)
                    sel = numpy.clip(sel, -lim, lim).astype(dt)
                try:
                    if form == 0:
                        res = numpy.array([vf(dt(x)) for x in sel], dtype=dt)
                    elif form == 1:
                        res = vf(sel)
                    elif form >= 3:
                        # N-d arrays that are not C-contiguous (Fortran copies, transposed / axes-permuted views): result[i] belongs to input[i]
                        m_ = (len(sel) // 6) * 6
                        if m_ == 0:
                            continue
                        sel = sel[:m_]
                        base = sel.reshape(m_ // 6, 3, 2)
                        lay = int(rng.integers(0, 4))
                        arr = [numpy.asfortranarray(base), base.transpose(2, 0, 1), numpy.asfortranarray(base.reshape(m_ // 2, 2)), base.reshape(m_ // 3, 3).T][lay]
                        res = vf(arr)
                        rec.count("backend:layouts-judged", arr.size)
                        if getattr(res, "shape", None) != arr.shape:
                            rec.violation("backend-array-shape", dict(dtype=params["dtype"], fn=fname, layout=lay, got=str(getattr(res, "shape", None)), expected=str(arr.shape)))
                            continue
                        sel = numpy.ascontiguousarray(arr).reshape(-1)
                        res = numpy.ascontiguousarray(res).reshape(-1)
                    else:
                        res = numpy.array(vf.call([dt(x) for x in sel], workers=1), dtype=dt)
                except Exception as e:
                    rec.violation("backend-exception", dict(dtype=params["dtype"], fn=fname, settings=kw, form=form, exc=f"{type(e).__name__}: {e}"[:300]))
                    continue
                if getattr(res, "dtype", None) != numpy.dtype(dt):
                    rec.violation("backend-dtype", dict(dtype=params["dtype"], fn=fname, settings=kw, form=form, got=str(getattr(res, "dtype", type(res)))))
                    continue
                rec.count("backend:flush-" + str(flush), len(sel))
                for x, r in zip(sel, res):
                    x = dt(x)
                    r = dt(r)
                    rec.count("evaluations")
                    qx = exact.frac(x)
                    sub_in = x != 0 and abs(qx) < f.min_normal
                    if sub_in:
                        rec.count("backend:subnormal-in")
                    if exq is not None:
                        q = exq(qx)
                        e = exact.RN(q, dt)
                    else:
                        c = certified_rn(lambda ctx, v: fn(v), x, dt)
                        if c is None:
                            rec.count("backend:uncertified")
                            continue
                        e, q = c
                    cls = result_class(q, dt)
                    if q == 0:
                        ok = bool(r == 0)
                    elif cls in ("normal", "overflow"):
                        if cls == "normal" and abs(exact.frac(e)) < f.min_normal:
                            cls = "subnormal"
                        ok = exact.bits_of(r) == exact.bits_of(e)
                    if q != 0 and cls in ("subnormal", "zero"):
                        if flush is True:
                            # explicitly requested: a result below the smallest normal comes back as a signed zero
                            rec.count("backend:flush-requested-judged")
                            if abs(round_to_precision(q, f.p)) < f.min_normal:
                                rr = numpy.asarray(r).reshape(-1)[0] if not isinstance(r, numpy.generic) else r
                                if not (rr == 0 and bool(numpy.signbit(rr)) == bool(q < 0)):
                                    rec.violation("backend-flush-requested-result", dict(dtype=params["dtype"], fn=fname, settings=st, flush=str(flush), form=form, x=x, got=r, expected="-0.0" if q < 0 else "0.0"))
                            continue
                        if cls == "zero":
                            ok = bool(r == 0)
                        else:
                            # preserved: not flushed; within 1 ulp of the correctly rounded subnormal (mpf2float rounds twice there)
                            d = exact.ulp_distance(r, e)
                            ok = d is not None and d <= 1 and not (r == 0 and abs(q) >= f.sub)
                            if exq is not None and exact.is_representable(q, dt):
                                ok = exact.bits_of(r) == exact.bits_of(e) or (q == 0 and r == 0)
                    rec.count("backend:judged")
                    if not ok:
                        site = "backend-" + ("subnormal-" if cls in ("subnormal", "zero") else "") + "result"
                        rec.violation(site, dict(dtype=params["dtype"], fn=fname, settings=st, flush=str(flush), form=form, x=x, got=r, expected=e))
                    rec.cls("backend", params["dtype"], fname, str(flush), si, cls, "sub_in" if sub_in else "norm_in")
    rec.sample(dict(backend=True, dtype=params["dtype"], functions=list(FUNCS), settings=SETTINGS, first_inputs=[dt(v) for v in xs[:3]]))
    contracts.detach_all()


def task_backend_complex(params, rec):
    """complex results (mpc): each component is converted like a real result - correctly rounded once (no detour through a 53-bit Python complex for
    complex64), subnormal components preserved unless flushing was requested, flushed to a signed zero when it was"""
    from functional_algorithms import utils

    install(rec, utils)
    cdt = getattr(numpy, params["cdtype"])
    dt = {numpy.complex64: numpy.float32, numpy.complex128: numpy.float64}[cdt]
    f = exact.fmt(dt)
    rng = gen.rng_for(params["seed"], 151, params["shard"], f.bits)
    n = params["n"]
    hv = gen.hostile_values(rng, dt, 2 * n)
    so = rng.integers(-(1 << (f.p - 1)), (1 << (f.p - 1)) + 1, size=2 * n)
    hv = numpy.where(rng.random(2 * n) < 0.35, exact.from_ordinal_arr(dt, so), hv).astype(dt)
    hv = hv[numpy.isfinite(hv)]
    funcs = {"identity": (lambda z: z, lambda x, y: (x, y)), "conjugate": (lambda z: z.conjugate(), lambda x, y: (x, -y)), "negate": (lambda z: -z, lambda x, y: (-x, -y)),
             "square": (lambda z: z * z, lambda x, y: (x * x - y * y, 2 * x * y))}
    half = (f.p + 1) // 2 + 1
    for fname, (fn, exq) in funcs.items():
        for flush in ("unspecified", False, True):
            kw = dict(extra_prec_multiplier=20)
            if flush != "unspecified":
                kw["flush_subnormals"] = flush
            vf = utils.vectorize_with_mpmath(fn, **kw)
            for i in range(params["per"]):
                if fname == "square":
                    # x*x an exact tie at p bits (odd (p+1)-bit square of a short odd significand), y tiny: the real part lies just below the tie
                    lo_, hi_ = int(math.isqrt(1 << f.p)) + 1, int(math.isqrt((1 << (f.p + 1)) - 1))
                    nx = int(rng.integers(lo_, hi_)) | 1
                    e_ = int(rng.integers(-20, 20))
                    x = dt(numpy.ldexp(float(nx), e_)) * dt(rng.choice([-1, 1]))
                    y = dt(numpy.ldexp(float(int(rng.integers(1, 1 << 8)) | 1), e_ - int(rng.integers(30, 60))))
                    if rng.random() < 0.3:
                        x, y = dt(hv[int(rng.integers(0, hv.size))]) , dt(hv[int(rng.integers(0, hv.size))])
                        if not (2.0 ** -40 < abs(float(x)) < 2.0 ** 40 and 2.0 ** -40 < abs(float(y)) < 2.0 ** 40):
                            continue
                else:
                    x, y = dt(hv[int(rng.integers(0, hv.size))]), dt(hv[int(rng.integers(0, hv.size))])
                z = cdt(complex(float(x), float(y))) if dt is numpy.float64 else numpy.array([x, y], dtype=dt).view(cdt)[0]
                rec.count("evaluations")
                try:
                    with warnings.catch_warnings():
                        warnings.simplefilter("ignore")
                        with numpy.errstate(all="ignore"):
                            r = vf(z) if i % 2 == 0 else vf(numpy.array([z], dtype=cdt))[0]
                except Exception as e:
                    rec.violation("backend-complex-exception", dict(cdtype=params["cdtype"], fn=fname, flush=str(flush), z=[x, y], exc=f"{type(e).__name__}: {e}"[:200]))
                    continue
                r = numpy.asarray(r).reshape(-1)[0]
                if r.dtype != numpy.dtype(cdt):
                    rec.violation("backend-complex-dtype", dict(cdtype=params["cdtype"], fn=fname, got=str(r.dtype)))
                    continue
                qs = exq(exact.frac(x), exact.frac(y))
                for comp, q, got in (("real", qs[0], dt(r.real)), ("imag", qs[1], dt(r.imag))):
                    cls = result_class(q, dt) if q != 0 else "zero0"
                    rec.count("backend-complex:judged")
                    if q == 0:
                        ok = bool(got == 0)
                    elif abs(round_to_precision(q, f.p)) < f.min_normal:
                        if flush is True:
                            ok = bool(got == 0) and bool(numpy.signbit(got)) == bool(q < 0)
                        elif exact.is_representable(q, dt):
                            ok = exact.bits_of(got) == exact.bits_of(exact.RN(q, dt))
                        else:
                            continue
                    elif cls == "overflow":
                        continue
                    else:
                        ok = exact.bits_of(got) == exact.bits_of(exact.RN(q, dt))
                    if not ok:
                        rec.violation("backend-complex-component", dict(cdtype=params["cdtype"], fn=fname, flush=str(flush), component=comp, z=[x, y], got=got, expected=exact.RN(q, dt) if q != 0 else 0.0))
                        break
                rec.cls("backend-complex", params["cdtype"], fname, str(flush))
    contracts.detach_all()


F16 = {"exp": lambda c, v: c.exp(v), "log": lambda c, v: c.log(v), "arctan": lambda c, v: c.atan(v), "arcsinh": lambda c, v: c.asinh(v), "sqrt": lambda c, v: c.sqrt(v)}


def task_backend_f16(params, rec):
    """default settings, every normal float16 input: the working precision is the 11 bits of the type, and mpmath's exp / log / atan / asinh / sqrt round
    correctly at that precision for every float16 (that is what this run establishes on the tree as it is), so the result is the correctly rounded one -
    unless the backend evaluates somewhere else and rounds twice (1 ULP at the handful of inputs whose value sits next to an 11-bit tie)"""
    from functional_algorithms import utils

    install(rec, utils)
    dt = numpy.float16
    f = exact.fmt(dt)
    name = params["fn"]
    bits = numpy.arange(0, 1 << 16, dtype=numpy.uint16)
    x = bits.view(dt)
    x = x[numpy.isfinite(x) & (numpy.abs(x) >= numpy.finfo(dt).smallest_normal)]
    if name in ("log", "sqrt"):
        x = x[x > 0]
    if name == "exp":
        x = x[numpy.abs(x) < 9.5]
    nm = utils.numpy_with_mpmath()
    res = getattr(nm, name)(x)
    if getattr(res, "dtype", None) != numpy.dtype(dt):
        rec.violation("backend-dtype", dict(dtype="float16", fn=name, got=str(getattr(res, "dtype", type(res)))))
        contracts.detach_all()
        return
    for xi, r in zip(x, res):
        c = certified_rn(F16[name], xi, dt)
        rec.count("evaluations")
        if c is None:
            rec.count("backend:uncertified")
            continue
        e, q = c
        if q == 0 or abs(exact.frac(e)) < f.min_normal or not numpy.isfinite(e):
            continue
        rec.count("backend:float16-default-judged")
        if exact.bits_of(dt(r)) != exact.bits_of(e):
            rec.violation("backend-float16-default-result", dict(dtype="float16", fn=name, x=xi, got=dt(r), expected=e))
        rec.cls("backend-f16", name, int(numpy.frexp(numpy.float64(xi))[1]))
    rec.sample(dict(kind="float16 exhaustive, default settings", fn=name, inputs=int(x.size)))
    contracts.detach_all()


TASKS = {"directed": task_directed, "backend": task_backend, "backend_complex": task_backend_complex, "backend_f16": task_backend_f16}


def plan(tier, seed):
    t = []
    n, nsh = (12000, 4) if tier == "quick" else (400000, 5)
    per, nb = (30, 2) if tier == "quick" else (300, 5)
    for dtn in ("float16", "float32", "float64"):
        for s in range(nsh):
            t.append(("directed", dict(dtype=dtn, shard=s, n=n, seed=seed)))
        for s in range(nb):
            t.append(("backend", dict(dtype=dtn, shard=s, n=4000, per=per, seed=seed)))
    for fn in ("exp", "log", "arctan", "arcsinh", "sqrt"):
        t.append(("backend_f16", dict(fn=fn)))
    for cdtn in ("complex64", "complex128"):
        for s in range(nb):
            t.append(("backend_complex", dict(cdtype=cdtn, shard=s, n=3000, per=60 if tier == "quick" else 600, seed=seed)))
    return t


def replay(site, witness, rec):
    from functional_algorithms import utils

    install(rec, utils)
    dt = getattr(numpy, witness["dtype"])
    if "q" in witness:
        utils.mpf2float(dt, to_mpf(F(witness["q"])))
    elif "fn" in witness:
        fn = FUNCS[witness["fn"]][0]
        kw = dict(witness.get("settings", {}))
        if witness.get("flush") in ("True", "False"):
            kw["flush_subnormals"] = witness["flush"] == "True"
        x = unfl(witness["x"], dt)
        r = utils.vectorize_with_mpmath(fn, **kw)(x)
        e = unfl(witness["expected"], dt)
        if exact.bits_of(dt(r)) != exact.bits_of(e):
            rec.violation(site, dict(witness, got=r))
    contracts.detach_all()
