"""Scalar reference interpreters of apply graphs, one per primitive library, written from each library's documentation
(not imported from functional_algorithms.targets.*):

  eval_pymath(graph, args)    Python floats / complex with the math module
  eval_npscalar(graph, args)  NumPy scalars of the declared dtypes
  eval_libm(graph, args)      IEEE basic operations as NumPy float32/float64 scalars; every transcendental through ctypes to the very
                              glibc libm symbols that std:: resolves to (logf/log, log1pf, atan2f, hypotf, ...)
A reference run may raise (Python math raises on domain errors, division by zero, overflow): RefRaised carries the exception class.
"""
import ctypes
import ctypes.util
import math
import operator
import warnings

import numpy

from .graph import NPDT, const_value


class RefRaised(Exception):
    pass


class Unsupported(Exception):
    pass


def _topo_eval(graph, args, leaf_const, ops):
    from functional_algorithms import Expr

    assert graph.kind == "apply"
    params = graph.operands[1:-1]
    env = {}
    for p, a in zip(params, args):
        if p.kind == "list":
            for q, v in zip(p.operands, a):
                env[id(q)] = v
            env[id(p)] = list(a)
        else:
            env[id(p)] = a
    memo = {}

    def ev(e):
        k = id(e)
        if k in memo:
            return memo[k]
        if e.kind == "symbol":
            if k not in env:
                raise Unsupported(f"free symbol {e}")
            r = env[k]
        elif e.kind == "constant":
            value, like = e.operands
            if isinstance(value, Expr):
                raise Unsupported("alt-context constant")
            r = leaf_const(value, like)
        elif e.kind == "list":
            r = [ev(o) for o in e.operands]
        elif e.kind == "item":
            lst = ev(e.operands[0])
            idx = e.operands[1]
            r = lst[int(idx.operands[0])]
        else:
            fn = ops.get(e.kind)
            if fn is None:
                raise Unsupported(e.kind)
            r = fn(e, *[ev(o) for o in e.operands])
        memo[k] = r
        return r

    return ev(graph.operands[-1])


# ------------------------------------------------------------------------------------------------ Python math
def _py_sign(e, x):
    return 0 if x == 0 else math.copysign(1, x)


def _py(fn):
    return lambda e, *a: fn(*a)


def _cmath_or_math(name):
    def f(e, x):
        if isinstance(x, complex):
            raise Unsupported(f"{name} of complex under math")
        return getattr(math, name)(x)

    return f


def _py_pow(e, a, b):
    # floor() / ceil() of a huge float is a huge Python int, and int ** int is exact: 10**300 ** 10**300 never finishes (in the emitted code as little as here);
    # such a program is not comparable - refused before either side is evaluated
    if isinstance(a, int) and isinstance(b, int) and not isinstance(a, bool) and b > 0 and abs(a) > 1 and a.bit_length() * b > 200000:
        raise Unsupported("huge integer power")
    return operator.pow(a, b)


PY_OPS = dict(
    absolute=_py(abs), negative=_py(operator.neg), positive=_py(operator.pos), add=_py(operator.add), subtract=_py(operator.sub), multiply=_py(operator.mul),
    divide=_py(operator.truediv), floor_divide=_py(operator.floordiv), remainder=_py(operator.mod), pow=_py_pow,
    logical_and=_py(lambda a, b: a and b), logical_or=_py(lambda a, b: a or b), logical_not=_py(operator.not_),
    maximum=_py(max), minimum=_py(min), atan2=_py(math.atan2), copysign=_py(math.copysign), sign=_py_sign,
    real=_py(lambda z: z.real), imag=_py(lambda z: z.imag), conjugate=_py(lambda z: z.conjugate()), complex=_py(complex),
    select=_py(lambda c, a, b: a if c else b), lt=_py(operator.lt), le=_py(operator.le), gt=_py(operator.gt), ge=_py(operator.ge), eq=_py(operator.eq), ne=_py(operator.ne),
    is_finite=_py(math.isfinite), floor=_py(math.floor), ceil=_py(math.ceil), truncate=_py(math.trunc),
)
for _n in ("acos", "acosh", "asinh", "atan", "atanh", "cos", "cosh", "sin", "sinh", "tan", "tanh", "exp", "expm1", "log", "log1p", "log2", "log10", "sqrt"):
    PY_OPS[_n] = _cmath_or_math(_n)

PY_NAMED = dict(smallest=lambda: __import__("sys").float_info.min, largest=lambda: __import__("sys").float_info.max, posinf=lambda: math.inf, neginf=lambda: -math.inf, pi=lambda: math.pi,
                eps=lambda: __import__("sys").float_info.epsilon, nan=lambda: math.nan, smallest_subnormal=lambda: 5e-324, undefined=lambda: math.nan)


def eval_pymath(graph, args):
    def const(value, like):
        if isinstance(value, str):
            if value not in PY_NAMED:
                raise Unsupported(value)
            return PY_NAMED[value]()
        if isinstance(value, numpy.generic):  # first: numpy.float64 is a float too, but the emitted literal is a Python float
            return value.item()
        if isinstance(value, (bool, int, float, complex)):
            return value
        raise Unsupported(type(value).__name__)

    try:
        return _topo_eval(graph, args, const, PY_OPS)
    except (ZeroDivisionError, ValueError, OverflowError, TypeError) as e:
        raise RefRaised(type(e).__name__)


# ------------------------------------------------------------------------------------------------ NumPy scalars
def _np(fn):
    def f(e, *a):
        return fn(*a)

    return f


def _np_complex(e, a, b):
    a, b = numpy.asarray(a)[()], numpy.asarray(b)[()]
    if a.dtype == numpy.float32 and b.dtype == numpy.float32:
        return numpy.complex64(complex(a, b))
    if a.dtype == numpy.float64 and b.dtype == numpy.float64:
        return numpy.complex128(complex(a, b))
    raise Unsupported("complex of mixed parts")


def _np_upcast(e, a):
    a = numpy.asarray(a)[()]
    return {numpy.dtype("float16"): numpy.float32, numpy.dtype("float32"): numpy.float64, numpy.dtype("complex64"): numpy.complex128, numpy.dtype("float64"): numpy.longdouble}[a.dtype](a)


def _np_downcast(e, a):
    a = numpy.asarray(a)[()]
    return {numpy.dtype("float64"): numpy.float32, numpy.dtype("float32"): numpy.float16, numpy.dtype("complex128"): numpy.complex64}[a.dtype](a)


NP_OPS = dict(
    absolute=_np(numpy.abs), negative=_np(operator.neg), positive=_np(operator.pos), add=_np(operator.add), subtract=_np(operator.sub), multiply=_np(operator.mul),
    divide=_np(operator.truediv), pow=_np(operator.pow), logical_and=_np(numpy.logical_and), logical_or=_np(numpy.logical_or), logical_not=_np(numpy.logical_not),
    maximum=_np(max), minimum=_np(min), atan2=_np(numpy.arctan2), copysign=_np(numpy.copysign), sign=_np(numpy.sign), hypot=_np(numpy.hypot), square=_np(numpy.square),
    real=_np(lambda z: z.real), imag=_np(lambda z: z.imag), conjugate=_np(lambda z: z.conjugate()), complex=_np_complex,
    select=_np(lambda c, a, b: numpy.where(c, a, b)), lt=_np(numpy.less), le=_np(numpy.less_equal), gt=_np(numpy.greater), ge=_np(numpy.greater_equal),
    eq=_np(numpy.equal), ne=_np(numpy.not_equal), is_finite=_np(numpy.isfinite), floor=_np(numpy.floor), ceil=_np(numpy.ceil), truncate=_np(numpy.trunc),
    upcast=_np_upcast, downcast=_np_downcast, exp2=_np(numpy.exp2), nextafter=_np(numpy.nextafter),
)
for _n, _f in dict(acos=numpy.arccos, acosh=numpy.arccosh, asin=numpy.arcsin, asinh=numpy.arcsinh, atan=numpy.arctan, atanh=numpy.arctanh, cos=numpy.cos, cosh=numpy.cosh, sin=numpy.sin,
                   sinh=numpy.sinh, tan=numpy.tan, tanh=numpy.tanh, exp=numpy.exp, expm1=numpy.expm1, log=numpy.log, log1p=numpy.log1p, log2=numpy.log2, log10=numpy.log10, sqrt=numpy.sqrt).items():
    NP_OPS[_n] = _np(_f)


def eval_npscalar(graph, args):
    def const(value, like):
        return const_value(value, NPDT[str(like.get_type())])

    with warnings.catch_warnings():
        warnings.simplefilter("ignore")
        with numpy.errstate(all="ignore"):
            # numpy.where returns a 0-d array and the emitted code uses it as it is: `where(..) ** x` is the power ufunc's loop, `scalar ** x` is the scalar
            # math's pow, and the two differ in the last bit for some arguments - the reference keeps the array so that every operator dispatches alike
            r = _topo_eval(graph, args, const, NP_OPS)
            if isinstance(r, (list, tuple)):
                return type(r)(v[()] if isinstance(v, numpy.ndarray) and v.shape == () else v for v in r)
            return r[()] if isinstance(r, numpy.ndarray) and r.shape == () else r


# ------------------------------------------------------------------------------------------------ C++: IEEE ops + glibc libm
_LIBM = None


def libm():
    global _LIBM
    if _LIBM is None:
        _LIBM = ctypes.CDLL(ctypes.util.find_library("m") or "libm.so.6")
    return _LIBM


def _libm_fn(name, nargs=1):
    def f(e, *a):
        a0 = numpy.asarray(a[0])[()]
        dts = {numpy.asarray(v).dtype for v in a}
        if numpy.dtype("float64") in dts and dts <= {numpy.dtype("float32"), numpy.dtype("float64")}:
            a0 = numpy.float64(a0)  # C++ overload resolution: mixed float/double arguments select the double overload
        if a0.dtype == numpy.float32:
            fn = getattr(libm(), name + "f")
            fn.restype = ctypes.c_float
            fn.argtypes = [ctypes.c_float] * nargs
            return numpy.float32(fn(*[ctypes.c_float(float(v)) for v in a]))
        if a0.dtype == numpy.float64:
            fn = getattr(libm(), name)
            fn.restype = ctypes.c_double
            fn.argtypes = [ctypes.c_double] * nargs
            return numpy.float64(fn(*[ctypes.c_double(float(v)) for v in a]))
        raise Unsupported(f"{name} on {a0.dtype}")

    return f


def _cpp_abs(e, a):
    a = numpy.asarray(a)[()]
    if a.dtype.kind == "c":
        return _libm_fn("hypot", 2)(e, a.real, a.imag)  # std::abs(std::complex<T>) is cabs = hypot
    return numpy.abs(a)


def _cpp_max(e, a, b):
    return b if a < b else a  # std::max(a, b): (a < b) ? b : a


def _cpp_min(e, a, b):
    return b if b < a else a  # std::min(a, b): (b < a) ? b : a


def _cpp_sign(e, x):
    return x if x == 0 else numpy.copysign(type(x)(1), x)


def _cpp_complex(e, a, b):
    """complex(a, b) of the graph: parts of different precision denote the wider complex type (exact conversion of the narrower part)"""
    a, b = numpy.asarray(a)[()], numpy.asarray(b)[()]
    if a.dtype == b.dtype:
        return _np_complex(e, a, b)
    if {a.dtype, b.dtype} == {numpy.dtype("float32"), numpy.dtype("float64")}:
        return numpy.complex128(complex(numpy.float64(a), numpy.float64(b)))
    raise Unsupported("complex of unsupported parts")


def _cpp_arith(op):
    def f(e, a, b):
        a, b = numpy.asarray(a)[()], numpy.asarray(b)[()]
        ca, cb = a.dtype.kind == "c", b.dtype.kind == "c"
        if not ca and not cb:
            return op(a, b)
        if ca and cb:
            if op in (operator.add, operator.sub):
                return op(a, b)
            raise Unsupported("complex*complex / complex/complex (libgcc __mulsc3/__divsc3 semantics)")
        # std::complex<T> op T acts component-wise (no promotion of the scalar to a complex number)
        z, s = (a, b) if ca else (b, a)
        ctor = type(z)
        if op is operator.mul:
            return ctor(complex(z.real * s, z.imag * s))
        if op is operator.add:
            return ctor(complex(z.real + s, z.imag))
        if op is operator.sub:
            return ctor(complex(z.real - s, z.imag)) if ca else ctor(complex(s - z.real, -z.imag))
        if op is operator.truediv and ca:
            return ctor(complex(z.real / s, z.imag / s))
        raise Unsupported("real / complex")

    return f


LIBM_OPS = dict(
    absolute=_cpp_abs, negative=_np(operator.neg), positive=_np(operator.pos), add=_cpp_arith(operator.add), subtract=_cpp_arith(operator.sub), multiply=_cpp_arith(operator.mul), divide=_cpp_arith(operator.truediv),
    logical_and=_np(lambda a, b: bool(a) and bool(b)), logical_or=_np(lambda a, b: bool(a) or bool(b)), logical_not=_np(lambda a: not bool(a)),
    maximum=_cpp_max, minimum=_cpp_min, sign=_cpp_sign, sqrt=_np(numpy.sqrt),  # sqrt is correctly rounded in IEEE and in glibc
    real=_np(lambda z: z.real), imag=_np(lambda z: z.imag), complex=_cpp_complex,
    select=_np(lambda c, a, b: a if bool(c) else b), lt=_np(operator.lt), le=_np(operator.le), gt=_np(operator.gt), ge=_np(operator.ge), eq=_np(operator.eq), ne=_np(operator.ne),
    is_finite=_np(numpy.isfinite), ceil=_np(numpy.ceil), floor=_np(numpy.floor), round=_libm_fn("round"),
    atan2=_libm_fn("atan2", 2),
)
for _n in ("acos", "acosh", "asin", "asinh", "atan", "atanh", "cos", "cosh", "sin", "sinh", "tan", "tanh", "exp", "expm1", "log", "log1p", "log2", "log10"):
    LIBM_OPS[_n] = _libm_fn(_n)


def eval_libm(graph, args):
    def const(value, like):
        dt = NPDT[str(like.get_type())]
        if isinstance(value, str) and value == "pi":
            return dt(math.pi)
        return const_value(value, dt)

    with warnings.catch_warnings():
        warnings.simplefilter("ignore")
        with numpy.errstate(all="ignore"):
            return _topo_eval(graph, args, const, LIBM_OPS)
