"""Named, reviewed predicates for known findings.  Each takes (site, witness) and decides whether the violation is an
instance of the *mechanism* the finding describes.  Keep them as tight as the mechanism allows."""


def _unfl(d):
    return float.fromhex(d["hex"]) if isinstance(d, dict) and "hex" in d else d


def c14_array_form_over_int64(site, w):
    """array form of diff_ulp in float64 when some distance >= 2**63: result is the float64 rounding of the exact distances"""
    if site != "array-form" or w.get("dtype") != "float64":
        return False
    exp, got = w["expected"], w["got"]
    return max(exp) >= 2**63 and all(int(float(e)) == int(g) for e, g in zip(exp, got))


def _vals(x):
    """witness scalar (real: dict, complex: [dict, dict]) -> tuple of python floats"""
    if isinstance(x, list):
        return tuple(_unfl(v) for v in x)
    return (_unfl(x),)


def c03_odd_zero_sign(site, w):
    """oddness f(-z) == -f(z) fails only in the sign of a zero-valued output component, at an input with a zero component
    (off the branch cut): the final `select(signed_component < 0, -v, v)` cannot see the sign of a zero."""
    if not (site.startswith("odd") and site.endswith(":zero-sign-only")):
        return False
    if not w.get("zero_component"):
        return False
    z = _vals(w["z"])
    if not any(v == 0 for v in z):
        return False
    lhs, rhs = _vals(w["lhs"]), _vals(w["rhs"])
    differs_somewhere = False
    for a, b in zip(lhs, rhs):
        if a != a and b != b:
            continue
        if a != b:
            return False  # values differ: not this mechanism
        if a == 0 and str(a) != str(b):
            differs_somewhere = True
    return differs_somewhere


_MINNORMAL = {"complex64": 2.0**-126, "complex128": 2.0**-1022, "float32": 2.0**-126, "float64": 2.0**-1022}


def _xy(w):
    return abs(_unfl(w["x"])), abs(_unfl(w["y"])), _unfl(w["x"]), _unfl(w["y"])


def c01_sqrt_both_subnormal(site, w):
    """complex sqrt when both components are subnormal: hypot(|x|,|y|)/2 + |x|/2 is formed in the subnormal range (few significant bits),
    it is not zero so the underflow-safe branch is not taken"""
    if site != "ulp-bound:sqrt":
        return False
    ax, ay, _, _ = _xy(w)
    mn = _MINNORMAL[w["dtype"]]
    return ax < mn and ay < mn and (ax > 0 or ay > 0)


def c01_unit_real_subnormal_imag(site, w):
    """asin/acos/acosh at Re = +-1 exactly with a subnormal Im (asinh: Im = +-1 with subnormal Re): the kernel's 0.5*y loses the low bits of /
    flushes a subnormal y before sqrt, so the component that should be ~sqrt(|y|) is off by many ULP or 0"""
    fn = w.get("function")
    if site != "ulp-bound:" + str(fn) or fn not in ("asin", "acos", "acosh", "asinh"):
        return False
    ax, ay, _, _ = _xy(w)
    mn = _MINNORMAL[w["dtype"]]
    big, small = (ay, ax) if fn == "asinh" else (ax, ay)
    return big == 1.0 and 0 < small < mn


def c01_unit_squared_component_underflows(site, w):
    """atanh at Re = +-1 (atan at Im = +-1, log1p at Re = -1) with the other component so small that its square is subnormal or underflows:
    the term y*y vanishes / loses bits and log of the (then zero or inaccurate) squared distance to the singularity gives -inf or a large error"""
    fn = w.get("function")
    if fn not in ("atanh", "atan", "log1p") or site not in ("spurious-inf:" + fn, "ulp-bound:" + fn):
        return False
    ax, ay, x, y = _xy(w)
    mn = _MINNORMAL[w["dtype"]]
    lim = mn ** 0.5
    big = {"complex64": 3.4028234663852886e38, "complex128": 1.7976931348623157e308, "float32": 3.4028234663852886e38, "float64": 1.7976931348623157e308}[w["dtype"]]

    def tiny(v):
        # v*v is subnormal / underflows, or (atanh, atan) the quotient 4 / (v*v) formed from it overflows: v*v < 4 / largest - for these types one more
        # value, v == sqrt(smallest normal) exactly, where v*v is the smallest normal
        return 0 < v < lim or (fn != "log1p" and 0 < v and v * v < 4.0 / big)

    if fn == "atan":
        return ay == 1.0 and tiny(ax)
    if fn == "log1p":
        return x == -1.0 and tiny(ay)
    return ax == 1.0 and tiny(ay)


def c04_upcast_downcast_cancel(site, w):
    """rule upcast(downcast(x)) -> x: exact in real arithmetic but not in floating point (the downcast rounds)"""
    if not (site.startswith("step:float:") or site.startswith("step:exact:")):
        return False
    if w.get("rule") not in ("upcast", "downcast"):
        return False
    return "(upcast (downcast" in w.get("before", "")


_LOGMAX = {"complex64": 88.72283905206835, "complex128": 709.782712893384}


def c01_exp_neginf_real_inf_imag(site, w):
    """exp(-inf + i*(+-inf)): |exp z| = e^-inf = 0 whatever the argument, but 0 * cos(inf) = 0 * nan = nan"""
    if site != "spurious-nan:exp":
        return False
    _, ay, x, _ = _xy(w)
    return x == float("-inf") and ay == float("inf")


def c01_exp_half_argument_overflows(site, w):
    """exp(x + iy) with x > 2*log(largest): the overflow path exp(x/2)*trig(y)*exp(x/2) overflows in exp(x/2) itself,
    giving +-inf for a component e^x * sin(y) (or cos) that is finite because |trig(y)| is tiny"""
    if site not in ("spurious-inf:exp", "spurious-nan:exp"):
        return False
    ax, ay, x, y = _xy(w)
    return x > 2 * _LOGMAX[w["dtype"]] and x != float("inf") and ay != float("inf")


def c11_fma_fix_overflow_drops_error_term(site, w):
    """emulated fma with fix_overflow=True when the Dekker product overflows internally (|x*y|(1+2^-(p-s))^2 > largest although x*y is finite):
    the documented fallback xyh = x*y, xyl = 0 drops the product's error term, so under cancellation with z the result is RN(RN(xy)+z), several ULP off"""
    if not site.endswith(":dekker_internal_overflow") or not w.get("dekker_internal_overflow"):
        return False
    if ":fo=1:" not in w.get("variant", ""):
        return False
    prec = {"float16": (11, 6), "float32": (24, 12), "float64": (53, 27)}[w["dtype"]]
    big = {"float16": 65504.0, "float32": 3.4028234663852886e38, "float64": 1.7976931348623157e308}[w["dtype"]]
    x, y = (_unfl(v) for v in w["operands"][:2])
    import math
    lm = math.log2(abs(x)) + math.log2(abs(y)) + 2 * math.log2(1 + 2.0 ** -(prec[0] - prec[1]))
    return lm >= math.log2(big) - 1e-9 and abs(x * y) <= big


def c17_trig_two_over_pi_truncated(site, w):
    """trigonometric reduction: the 2/pi multiword of a dtype cannot hold words below its smallest subnormal, so x*(2/pi) carries an absolute error of
    about |x| * smallest_subnormal; when x is near a multiple of pi/2 (tiny remainder) or near the top of the domain this exceeds the ULP bound"""
    if site != "trig:reconstruction":
        return False
    r = w.get("abs_error_over_x_times_smallest_subnormal")
    return r is not None and 0 <= _unfl(r) <= 4.0


def c17_trig_remainder_absolute_accuracy(site, w):
    """trigonometric reduction: (r, t) is a double word of the *fraction* of x*2/pi, i.e. accurate to about 2^-2p in absolute terms; for the
    worst-case inputs whose remainder is below ~2^-(p-5) this is 2-4 ULP of the remainder"""
    if site != "trig:reconstruction":
        return False
    p = {"float16": 11, "float32": 24, "float64": 53}[w["dtype"]]
    la, lr = w.get("log2_abs_error"), w.get("log2_abs_true_remainder")
    if la is None or lr is None:
        return False
    la, lr = _unfl(la), _unfl(lr)
    return lr <= -(p - 5) and la <= -(2 * p - 6) and w.get("ulps", 99) <= 8


def c08_python_max_min_returns_an_operand(site, w):
    """NumPy target: maximum/minimum are emitted as Python max()/min(), which return one of their operands unchanged, so for operands of
    different precision the run-time dtype is the selected operand's, not the promoted type the static inference (and numpy.maximum) gives"""
    if site not in ("static-vs-runtime:maximum", "static-vs-runtime:minimum"):
        return False
    ots = w.get("operand_types", [])
    return len(ots) == 2 and ots[0] != ots[1] and w.get("runtime") in ots and w.get("static") in ots


def c06_xla_implicit_like_symbol(site, w):
    """XLA client target with the alternative constant context: a constant created without an explicit like (boolean results of folded
    comparisons, ...) is attached to the context's implicit symbol (_boolean_value, _float_value, ...), which the printer emits as an
    undeclared C++ identifier"""
    return site == "xla_client:reference-before-binding" and w.get("name") in ("_boolean_value", "_float_value", "_integer_value", "_complex_value", "_value")


def c06_xla_python_boolean_literal(site, w):
    """XLA client target: a boolean constant inside a compile-time constant expression is printed with Python's spelling (True / False)"""
    return site == "xla_client:constant-expression-not-evaluable" and any(s in w.get("error", "") for s in ("unbound constant name True", "unbound constant name False"))


def c04_rule_changes_static_precision(site, w):
    """mixed-precision graphs: rules that replace a node by one of its operands / a folded constant (x*1 -> x, 0+x -> x, select(const, a, b) -> a|b,
    real/imag(complex(a, b)) -> a|b, constant folding typed like the first operand) do not preserve the node's promoted static type, so the
    value is computed in another precision"""
    if not (site.startswith("step:float:") and site.endswith(":type-change")):
        return False
    return bool(w.get("before_type")) and bool(w.get("after_type")) and w["before_type"] != w["after_type"]


def c05_cpp_integer_literal_division(site, w):
    """C++ target, graph printed without the algebraic rewrite pass: integer-valued Python constants 'like' a double operand are printed as int
    literals, so a division whose two operands are such literals (possibly through a ternary) is an integer division: (1) / (2) == 0"""
    import re

    if not site.startswith("cpp:value-differs"):
        return False
    src = w.get("source", "")
    if "norewrite" not in w.get("program", ""):
        return False
    # numerator: an int literal or a ternary of int literals, closed by parentheses; denominator: an int literal
    return re.search(r"\(\d+\)\)*\s*/\s*\(\d+\)", src) is not None


def c06_xla_integer_literal_division(site, w):
    """XLA client target, compile-time (alternative-context) constant expressions: integer-valued constants are printed as C++ int literals (the C++
    constant printer casts only for the concrete types float / std::complex, not for the opaque FloatType), so a division of two of them is an
    integer division: ScalarLike(a, (1) / (3)) is 0"""
    import re

    if site != "xla_client:constant-expression-value":
        return False
    if not re.search(r"\(divide \(constant -?\d+, [^()]*\), \(constant -?\d+, ", w.get("expr", "")):
        return False
    if not re.search(r"\(-?\d+\)\s*/\s*\(-?\d+\)", w.get("text", "")):
        return False
    try:
        got, want = float(_unfl(w["got"])), float(_unfl(w["want"]))
    except Exception:
        return False
    return got == float(int(want))  # the truncated quotient


def c08_unsized_constant_operand(site, w):
    """a constant created without a like-operand is typed by the context's unsized float / integer symbol: Type.max ignores the unsized type, the
    NumPy target prints the constant as numpy.float64(..) / numpy.int64(..), so the node's run-time dtype follows NumPy's promotion with a 64-bit scalar
    (float32 * constant(2.5) is float64) while the static type is the other operand's"""
    if not site.startswith("static-vs-runtime:"):
        return False
    ots = w.get("operand_types", [])
    if not any(t in ("float", "integer", "complex") for t in ots):
        return False
    if w.get("unsized_operands_from_likeless_constants"):
        return True  # structural: the node text of a deep graph is truncated before the constant shows
    return "_float_value" in w.get("node", "") or "_integer_value" in w.get("node", "") or "_complex_value" in w.get("node", "")


def c11_fma_product_underflow(site, w):
    """emulated fma when the exact product x*y has bits below the smallest subnormal (tiny |x*y|): the Dekker partial products are rounded in the
    subnormal range, each by up to half a unit, so the result can be 2-3 ULP off (the docstring lists 'underflow occurred in fma arithmetics' as a
    cause of inexactness).  Only small errors are attributed to this mechanism."""
    if not site.endswith(":product_bits_below_smallest_subnormal") or not w.get("product_bits_below_smallest_subnormal"):
        return False
    return 1 < w.get("ulps", 10**9) <= 4


def c09_shared_context_renaming(site, w):
    """one Context printed for a second target: the second text equals the own-context text up to a consistent one-to-one renaming of identifiers
    (names registered by the first rewrite are never released).  Anything that is not a pure renaming is not this mechanism."""
    return site == "shared-context:text-depends-on-earlier-target" and w.get("only_local_names_renamed") is True
