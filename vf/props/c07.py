"""C07 — expression identity is structural identity (sound hash-consing).

Contract on Context._register_expression (class attribute: fires on every Expr.__new__, alternative context included).
Model: an independent structural key (object identities of operands, exact bit pattern + Python type of constant values,
identity of the reference expression).  Soundness: the returned object has the candidate's structural key.  Completeness:
a key seen before in this context returns the first object.  End-to-end: one root per history is printed with the Python
target, executed, and compared with an evaluation of the *intended* DAG.
"""
import math
import random
import struct

import numpy

from .. import contracts

LEVEL = "exploration"
RULE = ("random construction histories per context: symbols (several types, repeated names), constants of every value type (bool, int, float, complex, "
        "numpy float16/32/64, numpy ints, numpy.bool_, named constants; 0.0/-0.0, NaN, +-inf, 1 vs 1.0 vs True, equal numbers under different 'like'), "
        "operations of ~40 kinds and arities over earlier nodes, repeated and interleaved, with/without the alternative constant context; plus tracing of all "
        "shipped algorithms under the contract. distinct_nontrivial = distinct structural-key shapes (kind, operand kinds / value type+class) for which a "
        "repeated construction (same structural key seen before) was observed")
ASSUME = ["CPython object identity; struct/ numpy byte views give exact bit patterns"]
REQUIRE = ["evaluations", "contract:Context._register_expression:evaluated", "events:repeat", "events:new", "e2e:executed", "shipped:traced", "long-history:expressions", "spellings:requests"]


def value_key(v):
    """exact, type-sensitive key of a constant's value (never uses == on floats)"""
    from functional_algorithms import Expr

    if isinstance(v, Expr):
        return ("expr", id(v))
    t = type(v)
    if isinstance(v, (bool, numpy.bool_)):
        return (t.__name__, bool(v))
    if isinstance(v, str):
        return ("str", v)
    if isinstance(v, numpy.generic):
        if isinstance(v, numpy.floating) and numpy.isnan(v):
            return (t.__name__, "nan")
        if isinstance(v, numpy.complexfloating) and numpy.isnan(v):
            # a NaN part is one value whatever its sign / payload; the other part keeps its exact bits
            return (t.__name__, "nan", tuple("nan" if numpy.isnan(p_) else p_.tobytes() for p_ in (v.real, v.imag)))
        if isinstance(v, numpy.longdouble) and v.dtype.itemsize == 16 and numpy.finfo(numpy.longdouble).nmant == 63:
            return (t.__name__, v.tobytes()[:10])  # x87 extended: 10 value bytes + 6 bytes of padding that are not part of the value
        return (t.__name__, v.tobytes())
    if isinstance(v, int):
        return ("int", v)
    if isinstance(v, float):
        if math.isnan(v):
            return ("float", "nan")
        return ("float", struct.pack("<d", v))
    if isinstance(v, complex):
        if math.isnan(v.real) or math.isnan(v.imag):
            return ("complex", "nan", tuple("nan" if math.isnan(p_) else struct.pack("<d", p_) for p_ in (v.real, v.imag)))
        return ("complex", struct.pack("<dd", v.real, v.imag))
    return (t.__name__, repr(v))


def type_key(t):
    p = t.param
    if isinstance(p, tuple):
        p = tuple(id(q) if not isinstance(q, (int, str, type(None), tuple)) else q for q in p)
    elif not isinstance(p, (int, str, type(None))):
        p = id(p)
    return (t.kind, p)


def structural_key(e):
    if e.kind == "symbol":
        return ("symbol", e.operands[0], type_key(e.operands[1]))
    if e.kind == "constant":
        return ("constant", value_key(e.operands[0]), id(e.operands[1]))
    return (e.kind,) + tuple(id(o) for o in e.operands)


def shape_of(e):
    if e.kind == "symbol":
        return ("symbol", str(e.operands[1]))
    if e.kind == "constant":
        vk = value_key(e.operands[0])
        v = e.operands[0]
        cls_ = "expr" if vk[0] == "expr" else ("nan" if vk[1] == "nan" else ("zero" if (not isinstance(v, str) and v == 0) else "str" if isinstance(v, str) else "num"))
        return ("constant", vk[0], cls_, e.operands[1].kind)
    return (e.kind,) + tuple(o.kind for o in e.operands)


class Model:
    """per-context model map structural key -> first registered object (kept alive so ids are never recycled)"""

    def __init__(self):
        self.by_ctx = {}
        self.keep = []

    def table(self, ctx):
        t = self.by_ctx.get(id(ctx))
        if t is None:
            t = self.by_ctx[id(ctx)] = {}
            self.keep.append(ctx)
        return t


def describe(e):
    try:
        s = " ".join(str(e).split())
    except Exception:
        s = f"<{e.kind}>"
    return s[:200]


def install(rec, model):
    from functional_algorithms import context as context_mod

    def post(a, k, prev):
        ctx, expr = a[0], a[1]
        rec.count("evaluations")
        ke = structural_key(expr)
        kp = structural_key(prev)
        model.keep.append(expr)
        tbl = model.table(ctx)
        isnan = expr.kind == "constant" and ke[1][1] == "nan"
        if kp != ke and not (isnan and kp[0] == "constant" and kp[1] == ke[1] and kp[2] == ke[2]):  # kp[1] is the whole value key: type, NaN-ness and, for complex, the bits of the other part
            # a different expression was silently substituted
            site = "alias-different-structure"
            if expr.kind == "constant" and prev.kind == "constant":
                v1, v2 = expr.operands[0], prev.operands[0]
                same_type = type(v1) is type(v2)
                try:
                    eq = bool(v1 == v2)
                except Exception:
                    eq = False
                if kp[2] == ke[2] and same_type and eq:
                    site = "alias-constant-signed-zero"
                elif kp[2] == ke[2]:
                    site = "alias-constant-value-or-type"
                else:
                    site = "alias-constant-like"
            rec.violation(site, dict(candidate=describe(expr), returned=describe(prev), candidate_key=repr(ke)[:200], returned_key=repr(kp)[:200]))
            return
        first = tbl.get(ke)
        if first is None:
            tbl[ke] = prev
            rec.count("events:new")
            if prev is not expr and not isnan:
                # equal structural key was never registered in this context, yet another object came back
                if structural_key(prev) == ke:
                    pass  # registered before the contract was installed (e.g. module import time)
        else:
            rec.count("events:repeat")
            rec.cls(shape_of(expr))
            if first is not prev and not isnan:
                rec.violation("duplicate-not-shared", dict(candidate=describe(expr), first=describe(first), returned=describe(prev)))
        # intkey: unique per context and never changes afterwards
        ik = prev.intkey
        seen = INTKEYS.setdefault(id(ctx), {})
        if ik in seen and seen[ik] is not prev:
            rec.violation("intkey-not-unique", dict(expr=describe(prev), other=describe(seen[ik]), intkey=ik))
        seen[ik] = prev
        if ik is None:
            rec.violation("intkey-missing", dict(expr=describe(prev)))

    contracts.attach(context_mod.Context, "_register_expression", post, rec, site="Context._register_expression")


INTKEYS = {}

UNARY = ["negative", "absolute", "sqrt", "square", "exp", "log", "log1p", "sin", "cos", "floor", "sign", "logical_not", "real", "imag", "conjugate", "upcast", "downcast", "is_finite"]
BINARY = ["add", "subtract", "multiply", "divide", "maximum", "minimum", "atan2", "hypot", "lt", "le", "gt", "ge", "eq", "ne", "logical_and", "logical_or", "logical_xor", "complex", "pow", "copysign"]


def rand_value(rnd):
    c = rnd.random()
    zeros = [0.0, -0.0, 0, False, numpy.float32(0.0), numpy.float32(-0.0), numpy.float64(-0.0), numpy.float64(0.0), numpy.float16(-0.0), numpy.float16(0.0),
             complex(0.0, 0.0), complex(0.0, -0.0), complex(-0.0, 0.0), numpy.complex64(complex(0.0, -0.0)), numpy.complex64(0)]
    ones = [1, 1.0, True, numpy.float32(1), numpy.float64(1), numpy.int32(1), numpy.int64(1), numpy.float16(1), complex(1, 0), numpy.bool_(True)]
    nans = [float("nan"), -float("nan"), complex(float("nan"), 1.0), complex(float("nan"), 2.0), complex(1.0, float("nan")), complex(2.0, float("nan")), complex(float("nan"), float("nan")),
            complex(float("nan"), -0.0), complex(float("nan"), 0.0), numpy.complex64(complex(float("nan"), 1.0)), numpy.complex64(complex(float("nan"), 2.0)), numpy.complex128(complex(3.0, float("nan"))),
            numpy.float32("nan"), numpy.float64("nan"), numpy.float16("nan")]
    if c > 0.93:
        return rnd.choice(nans)
    if c > 0.86:
        # neighbours: values of one numpy type that differ in the last bit(s) - also of the widest native type, whose values no Python float can tell apart
        ld = numpy.longdouble
        wide = [ld(1), ld(1) + ld(2) ** -60, ld(1) - ld(2) ** -61, ld(1) / 3, ld(float(ld(1) / 3)), ld("1e4000"), ld("inf"), -ld("1e4000"), -ld("inf"), ld("1e-400"), ld(0), -ld(0), ld("1e-4940"),
                ld(2) ** 64 + 1, ld(2) ** 64]
        near = [numpy.nextafter(numpy.float32(1), numpy.float32(k)) for k in (0, 2)] + [numpy.nextafter(numpy.float64(1), numpy.float64(k)) for k in (0, 2)] + [numpy.nextafter(numpy.float16(1), numpy.float16(k)) for k in (0, 2)]
        near += [numpy.float32(2 ** 24), numpy.float32(2 ** 24 + 2), numpy.float64(2 ** 53), numpy.float64(2 ** 53 + 2), 2 ** 53, 2 ** 53 + 1, 2 ** 64, 2 ** 64 + 1, numpy.float32(1e-45), numpy.float32(3e-45),
                 numpy.float64(5e-324), numpy.float64(1e-323), numpy.uint8(200), numpy.int8(-56), numpy.uint8(1), numpy.int8(1), numpy.uint32(1), numpy.int32(1), numpy.uint64(2 ** 63), numpy.int64(-2 ** 63)]
        return rnd.choice(wide + near)
    special = [float("nan"), float("inf"), -float("inf"), numpy.float32("nan"), numpy.float64("inf"), "pi", "largest", "smallest", "eps", "posinf", "neginf", "nan", 2, 2.0, 0.5, -1, -1.0, 3, numpy.float32(0.5), numpy.int8(2)]
    if c < 0.3:
        return rnd.choice(zeros)
    if c < 0.5:
        return rnd.choice(ones)
    if c < 0.75:
        return rnd.choice(special)
    if c < 0.85:
        return rnd.choice([rnd.randint(-5, 5), float(rnd.randint(-5, 5)), numpy.float32(rnd.randint(-5, 5)), numpy.float64(rnd.randint(-5, 5))])
    return rnd.random() * 10 - 5


def build_history(rnd, ctx, n, rec):
    """random interleaved constructions; returns list of nodes"""
    from functional_algorithms import Expr

    types_ = ["float32", "float64", "float", "complex64", "complex128", "boolean", "int64", "int32", "uint32", "uint64", "int8", "uint8", "int16", "uint16", "float16", numpy.uint8, numpy.int8, numpy.uint32, numpy.int32]
    syms = []
    for name in ("x", "y", "z"):
        syms.append(ctx.symbol(name, rnd.choice(types_[:3])))
    nodes = list(syms)
    consts = []
    for _ in range(n):
        c = rnd.random()
        try:
            if c < 0.08:
                # same name, possibly different type: distinct symbols unless both agree
                nodes.append(ctx.symbol(rnd.choice("xyzw"), rnd.choice(types_)))
            elif c < 0.4:
                v = rand_value(rnd)
                like = rnd.choice(nodes + syms)
                mode = rnd.random()
                if mode < 0.6:
                    e = ctx.constant(v, like)
                elif mode < 0.8:
                    e = ctx.constant(v) if not isinstance(v, str) else ctx.constant(v, like)
                else:
                    e = ctx.constant(v, rnd.choice(types_[:5]))
                nodes.append(e)
                consts.append(e)
            elif c < 0.47:
                # near-duplicates: rebuild an existing compound node with exactly one operand replaced (first, middle or last position), then put
                # the same parent - and grand-parent - over the original and the variant: a key that looks only at some of the operands of an
                # operand (or only one level down) aliases the parents while the nodes themselves stay distinct
                comp = [n_ for n_ in nodes if n_.kind not in ("symbol", "constant") and len(n_.operands) >= 1 and all(isinstance(o, Expr) for o in n_.operands)]
                if comp:
                    n0 = rnd.choice(comp[-40:] if rnd.random() < 0.5 else comp)
                    j = rnd.randrange(len(n0.operands))
                    ops = list(n0.operands)
                    ops[j] = rnd.choice(nodes)
                    n1 = Expr(ctx, n0.kind, tuple(ops))
                    nodes.append(n1)
                    sib = rnd.choice(nodes)
                    pk = rnd.choice(UNARY + BINARY + ["select", "list"])
                    for n_ in (n0, n1):
                        if pk in UNARY:
                            par = Expr(ctx, pk, (n_,))
                        elif pk in BINARY:
                            par = Expr(ctx, pk, (n_, sib) if j % 2 == 0 else (sib, n_))
                        elif pk == "select":
                            par = Expr(ctx, "select", (sib, n_, sib) if j % 2 == 0 else (n_, sib, sib))
                        else:
                            par = ctx.list([sib, n_, sib])
                        nodes.append(par)
                        nodes.append(Expr(ctx, rnd.choice(UNARY), (par,)))
            elif c < 0.6:
                a = rnd.choice(nodes)
                nodes.append(Expr(ctx, rnd.choice(UNARY), (a,)))
            elif c < 0.9:
                a, b = rnd.choice(nodes), rnd.choice(nodes)
                if rnd.random() < 0.3:
                    b = rand_value(rnd)  # python scalars are normalised to constants 'like' the first Expr operand
                    if isinstance(b, (numpy.generic, bool)) or (isinstance(b, str)):
                        b = rnd.choice(nodes)
                nodes.append(Expr(ctx, rnd.choice(BINARY), (a, b)))
            elif c < 0.96:
                nodes.append(Expr(ctx, "select", (rnd.choice(nodes), rnd.choice(nodes), rnd.choice(nodes))))
            else:
                items = [rnd.choice(nodes) for _ in range(rnd.randint(0, 4))]
                lst = ctx.list(items)
                nodes.append(lst)
        except (RuntimeError,) as e:
            if "re-register equivalent" in str(e):
                rec.count("refused:re-register")
            else:
                rec.count("refused:RuntimeError")
        except (AssertionError, ValueError, TypeError, NotImplementedError, KeyError, AttributeError, OverflowError):
            rec.count("refused:construction")
    return nodes


def task_histories(params, rec):
    import functional_algorithms as fa

    model = Model()
    install(rec, model)
    rnd = random.Random(f"c07-{params['seed']}-{params['shard']}")
    for h in range(params["histories"]):
        alt = rnd.random() < 0.25
        ctx = fa.Context(paths=[fa.algorithms], enable_alt=alt, default_constant_type="float64" if alt else None)
        nodes = build_history(rnd, ctx, params["n"], rec)
        # quiescent-point invariant: every registered key maps to an object whose key is that key; intkeys unique
        seen = set()
        for k_, e in ctx._expressions.items():
            if e.key != k_:
                rec.violation("registry-key-mismatch", dict(expr=describe(e)))
            if e.intkey in seen:
                rec.violation("intkey-not-unique", dict(expr=describe(e), intkey=e.intkey))
            seen.add(e.intkey)
        if h < 2:
            rec.sample(dict(history=h, enable_alt=alt, constructions=params["n"], last_nodes=[describe(e) for e in nodes[-3:]]))
    contracts.detach_all()


def task_long(params, rec):
    """one context with very many expressions: the two-level integer key is built from construction indices, so whatever it does with them
    must stay injective when indices grow past 2^16, 2^17, ... The history is dense around a few hot operands (every late node is combined
    with them on either side), which is where a key that packs / truncates / hashes operand indices would collide first."""
    import functional_algorithms as fa
    from functional_algorithms import Expr

    model = Model()
    install(rec, model)
    rnd = random.Random(f"c07-long-{params['seed']}-{params['shard']}")
    ctx = fa.Context(paths=[fa.algorithms])
    nhot = 8 if params["shard"] % 2 == 0 else 16
    hot = [ctx.symbol(f"h{i}", "float64") for i in range(nhot)]
    kinds = ["add", "multiply", "subtract", "atan2"]
    f = ctx.symbol("f", "float64")
    total = params["n"]
    i = 0
    try:
        while len(ctx._expressions) < total:
            f = Expr(ctx, "negative" if i % 2 else "absolute", (f,)) if i % 7 else Expr(ctx, "sqrt", (Expr(ctx, "square", (f,)),))
            a1 = Expr(ctx, kinds[i % 2], (hot[i % nhot], f))
            a2 = Expr(ctx, kinds[i % 2], (f, hot[(i + 3) % nhot]))
            # the key of a node is built from its operands' (kind, operand indices): put the late nodes one level down as well
            Expr(ctx, "sqrt", (a1,))
            Expr(ctx, "exp", (a2,))
            if i % 3 == 0:
                Expr(ctx, kinds[2 + i % 2], (a1, a2))
            if i % 5 == 0:
                Expr(ctx, "select", (Expr(ctx, "lt", (hot[i % 3], f)), a1, hot[(i // 5) % nhot]))
            if i % 11 == 0:
                Expr(ctx, kinds[2 + i % 2], (f, f))
            i += 1
    except (AssertionError, RuntimeError) as e:
        rec.violation("long-history:construction-raises", dict(exc=f"{type(e).__name__}: {e}"[:300], expressions=len(ctx._expressions)))
    n = len(ctx._expressions)
    rec.count("long-history:contexts")
    rec.count("long-history:expressions", n)
    rec.note("long-history:largest-context", n)
    seen = set()
    for k_, e in ctx._expressions.items():
        if e.key != k_:
            rec.violation("registry-key-mismatch", dict(expr=describe(e)))
            break
        if e.intkey in seen:
            rec.violation("intkey-not-unique", dict(expr=describe(e), intkey=e.intkey))
            break
        seen.add(e.intkey)
    contracts.detach_all()


def task_e2e(params, rec):
    """end-to-end: an alias shows up as a numerically wrong generated function"""
    import functional_algorithms as fa
    from functional_algorithms import targets

    model = Model()
    install(rec, model)
    rnd = random.Random(f"c07e-{params['seed']}-{params['shard']}")
    VALS = [0.0, -0.0, 1.0, -1.0, 0.5, 2.0, 1, 0, 2, 3.0, -2.0, 1.5]

    for h in range(params["histories"]):
        prog = []  # model program: list of (op, args) with args indices into prog or ("sym", i) / ("const", value)
        nsteps = rnd.randint(3, 14)
        for i in range(nsteps):
            c = rnd.random()
            if i < 2 or c < 0.45:
                prog.append(("const", rnd.choice(VALS)))
            elif c < 0.55:
                prog.append(("sym", rnd.randint(0, 1)))
            elif c < 0.75:
                prog.append((rnd.choice(["add", "subtract", "multiply"]), rnd.randrange(i), rnd.randrange(i)))
            elif c < 0.9:
                prog.append(("atan2", rnd.randrange(i), rnd.randrange(i)))
            else:
                prog.append(("select_gt", rnd.randrange(i), rnd.randrange(i), rnd.randrange(i), rnd.randrange(i)))
        prog.append(("atan2", len(prog) - 1, rnd.randrange(len(prog))))

        def fn(ctx, x, y):
            nodes = []
            for step in prog:
                if step[0] == "const":
                    nodes.append(ctx.constant(step[1], x))
                elif step[0] == "sym":
                    nodes.append((x, y)[step[1]])
                elif step[0] == "select_gt":
                    nodes.append(ctx.select(nodes[step[1]] > nodes[step[2]], nodes[step[3]], nodes[step[4]]))
                else:
                    nodes.append(getattr(ctx, step[0])(nodes[step[1]], nodes[step[2]]))
            return nodes[-1]

        def model_eval(xv, yv):
            vals = []
            for step in prog:
                if step[0] == "const":
                    vals.append(float(step[1]))
                elif step[0] == "sym":
                    vals.append((xv, yv)[step[1]])
                elif step[0] == "select_gt":
                    vals.append(vals[step[3]] if vals[step[1]] > vals[step[2]] else vals[step[4]])
                elif step[0] == "add":
                    vals.append(vals[step[1]] + vals[step[2]])
                elif step[0] == "subtract":
                    vals.append(vals[step[1]] - vals[step[2]])
                elif step[0] == "multiply":
                    vals.append(vals[step[1]] * vals[step[2]])
                elif step[0] == "atan2":
                    vals.append(math.atan2(vals[step[1]], vals[step[2]]))
            return vals[-1]

        ctx = fa.Context(paths=[fa.algorithms])
        try:
            g = ctx.trace(fn, float, float)
            f = targets.python.as_function(g)
        except Exception as e:
            rec.count("e2e:refused:" + type(e).__name__)
            continue
        rec.count("e2e:executed")
        for xv, yv in ((0.5, -2.0), (-0.0, 0.0), (3.0, 3.0), (-1.0, 0.0)):
            try:
                got = f(xv, yv)
                want = model_eval(xv, yv)
            except Exception as e:
                rec.count("e2e:exec-exception:" + type(e).__name__)
                continue
            if struct.pack("<d", float(got)) != struct.pack("<d", float(want)) and not (math.isnan(got) and math.isnan(want)):
                rec.violation("generated-code-substitutes-value", dict(program=[list(map(str, s)) for s in prog], x=xv, y=yv, got=got, want=want))
                break
        if h < 1:
            rec.sample(dict(e2e_program=[list(map(str, s)) for s in prog]))
    contracts.detach_all()


def task_shipped(params, rec):
    """trace the shipped algorithms with the contract on: real construction histories"""
    import functional_algorithms as fa
    from functional_algorithms import rewrite

    model = Model()
    install(rec, model)
    names = ["absolute", "acos", "acosh", "asin", "asinh", "atan", "atanh", "exp", "log", "log2", "log10", "log1p", "sqrt", "square", "hypot"]
    for i, name in enumerate(names):
        if i % params["nshards"] != params["shard"]:
            continue
        for sig in ((":complex64",), (":float32",), (":complex128",)):
            if name == "hypot":
                sig = (":float32", ":float32") if sig[0] != ":complex128" else (":float64", ":float64")
            for alt in (False, True):
                ctx = fa.Context(paths=[fa.algorithms], enable_alt=alt, default_constant_type="FloatType" if alt else None)
                try:
                    g = ctx.trace(getattr(fa.algorithms, name), *sig)
                    for tgt in ((fa.targets.xla_client,) if alt else (fa.targets.numpy, fa.targets.stablehlo)):
                        g.rewrite(tgt, rewrite)
                    rec.count("shipped:traced")
                except Exception as e:
                    rec.count("shipped:refused:" + type(e).__name__)
    contracts.detach_all()


SIZED = ["float16", "float32", "float64", "complex64", "complex128", "int8", "int16", "int32", "int64", "uint8", "uint16", "uint32", "uint64", "boolean"]


def spelling_name(sp):
    """the harness's own reading of a type spelling, independent of Type.fromobject: sized numeric names only (unsized float/int/complex and the platform's
    long double are left out - whether those alias a sized type is not claimed here)"""
    n = sp if isinstance(sp, str) else sp.__name__
    n = {"bool": "boolean", "bool_": "boolean"}.get(n, n)
    return n if n in SIZED else None


def task_spellings(params, rec):
    """request-level monitor: the type of a symbol, and the reference type of a constant, as REQUESTED.  The structural key the other monitors use is read
    off the result, so two types merged inside Type.fromobject (say a signedness or a width dropped) would look the same to them; here what was asked for is
    compared: same name + differently sized / signed type -> different object; same request -> same object"""
    import functional_algorithms as fa

    rnd = random.Random(f"c07-sp-{params['seed']}")
    spell = list(SIZED) + [getattr(numpy, n) for n in SIZED if n != "boolean"] + ["bool", bool]
    values = [200, 1, 0, 1.5, 0.0, -0.0, True, numpy.float32(1), "pi", "largest"]
    for h in range(params["histories"]):
        ctx = fa.Context(paths=[fa.algorithms])
        seen = {}
        for _ in range(params["n"]):
            sp = rnd.choice(spell)
            cn = spelling_name(sp)
            if rnd.random() < 0.5:
                req = ("symbol", rnd.choice("nxy"), cn)
                try:
                    e = ctx.symbol(req[1], sp)
                except Exception as ex:  # a spelling the package refuses is not an identity matter
                    rec.count("spellings:refused:" + type(ex).__name__)
                    continue
            else:
                v = rnd.choice(values)
                req = ("constant", value_key(v), cn)
                try:
                    e = ctx.constant(v, sp)
                except Exception as ex:
                    rec.count("spellings:refused:" + type(ex).__name__)
                    continue
            rec.count("evaluations")
            rec.count("spellings:requests")
            rec.cls("spelling", req[0], cn, "repeat" if req in seen else "new")
            if req in seen:
                if seen[req] is not e:
                    rec.violation("same-request-different-object:" + req[0], dict(request=repr(req), first=describe(seen[req]), second=describe(e)))
            else:
                for r2, e2 in seen.items():
                    if e2 is e:
                        rec.violation("aliased-different-type:" + req[0], dict(request=repr(req), earlier_request=repr(r2), object=describe(e)))
                        break
                seen[req] = e
    rec.sample(dict(kind="type spellings", spellings=[str(x) for x in spell[:8]], histories=params["histories"]))


TASKS = {"histories": task_histories, "e2e": task_e2e, "shipped": task_shipped, "long": task_long, "spellings": task_spellings}


def plan(tier, seed):
    if tier == "quick":
        t = [("histories", dict(seed=seed, shard=s, histories=150, n=300)) for s in range(10)]
        t += [("e2e", dict(seed=seed, shard=s, histories=250)) for s in range(3)]
        t += [("long", dict(seed=seed, shard=s, n=(1 << 17) + 30000)) for s in range(2)]
    else:
        t = [("histories", dict(seed=seed, shard=s, histories=3000, n=800)) for s in range(12)]
        t += [("histories", dict(seed=seed, shard=100 + s, histories=6, n=30000)) for s in range(2)]
        t += [("e2e", dict(seed=seed, shard=s, histories=20000)) for s in range(8)]
        t += [("long", dict(seed=seed, shard=s, n=(1 << 17) + 30000)) for s in range(2)] + [("long", dict(seed=seed, shard=2 + s, n=(1 << 20) + 200000)) for s in range(2)] + [("long", dict(seed=seed, shard=4, n=(1 << 21) + 100000))]
    t += [("shipped", dict(shard=s, nshards=5)) for s in range(5)]
    t += [("spellings", dict(seed=seed, histories=40 if tier == "quick" else 2000, n=400))]
    return t


def replay(site, witness, rec):
    import functional_algorithms as fa

    model = Model()
    install(rec, model)
    ctx = fa.Context()
    x = ctx.symbol("x", "float64")
    for a, b in ((0.0, -0.0), (-0.0, 0.0), (complex(0.0, 0.0), complex(0.0, -0.0)), (numpy.float32(0.0), numpy.float32(-0.0)), (1, True), (1, 1.0)):
        ctx.constant(a, x)
        ctx.constant(b, x)
    contracts.detach_all()
