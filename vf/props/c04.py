"""C04 — rewriting never changes what an expression denotes.

Step monitor: a recording contract on Rewriter.__call__ judges every single rule application (before, after) - also those made
while rewriting the shipped algorithms for every target.  Whole-program monitor: typed random DAGs (+ pattern-directed templates)
are rewritten alone and after each target's expansion pass, with deep_first in {True, False}; original and result are compared
under an exact rational interpreter and a float interpreter with a 'clean' mask (no NaN/overflow/underflow/division by zero at
any node of the original).
"""
import io
import contextlib
import random
import signal
import numpy

from .. import contracts, exprinterp, graph
from ..exprinterp import UNDEF, UNKNOWN

LEVEL = "exploration"
RULE = ("typed random expression DAGs over arithmetic, comparisons, logical ops, select, min/max, abs, sign, sqrt, square, named and numeric constants (Python and "
        "NumPy scalars), up/downcast, lists/items, complex/real/imag; depth <= 6, 1-3 symbols of float32/float64/untyped float; pattern-directed templates for "
        "rarely matching rules (nested selects, (not y and b) or y, comparisons of signed sub-expressions, x rop x, select on eq/ne); each rewritten alone and after "
        "each target's expansion (python, numpy, stablehlo, xla_client, cpp, own-expansion), deep_first True/False. distinct_nontrivial = distinct (rule kind, "
        "operand kinds, result kind) triples of rule applications whose result is a different expression")
ASSUME = ["vf.exprinterp float semantics: each node evaluated by NumPy in its static dtype (untyped float = float64); exact semantics over Fractions, partial",
          "assignments where the original divides by zero are excluded from the float clause (undefined in real arithmetic; a permitted zero-sign difference would be amplified to +-inf)"]
REQUIRE = ["evaluations", "contract:Rewriter.__call__:evaluated", "contract:Rewriter.rule:evaluated", "steps:judged", "programs:nontrivial", "programs:judged-float", "programs:judged-exact", "shipped:rewritten"]

POOL32 = None


def value_pool(dt, rng, n):
    fi = numpy.finfo(dt)
    base = numpy.array([0.0, -0.0, 1.0, -1.0, 0.5, -0.5, 2.0, -2.0, 3.0, -7.25, 1.5, 4.0, 9.0, 0.25, 2.25, 100.0, 1e-3, float(fi.eps), 1 + float(fi.eps),
                        float(fi.smallest_normal) * 4, float(fi.max) / 4, numpy.inf, -numpy.inf, 10.0, -3.0], dtype=dt)
    pick = base[rng.integers(0, base.size, size=n)]
    rnd = (rng.standard_normal(n) * 10.0 ** rng.integers(-3, 4, size=n)).astype(dt)
    return numpy.where(rng.random(n) < 0.75, pick, rnd).astype(dt)


QPOOL = None


def qpool():
    from fractions import Fraction as F

    return [F(0), F(1), F(-1), F(1, 2), F(-1, 2), F(2), F(3), F(-29, 4), F(4), F(9, 4), F(1, 4), F(10), F(-3), F(9), F(100), F(1, 1000)]


def sym_dtype(s):
    t = str(s.operands[1])
    return graph.NPDT.get(t, numpy.float64)


class Judge:
    def __init__(self, rec, seed):
        self.rec = rec
        self.rng = numpy.random.default_rng(seed)
        self.rnd = random.Random(seed)
        self.N = 64
        self.seen = set()
        self.flagged = False
        self.folded = False
        self.updown_fired = False
        self.type_changed = False
        self.cur_types = None

    def env_for(self, syms):
        env = {}
        for s in syms:
            dt = sym_dtype(s)
            if numpy.dtype(dt).kind == "c":
                fdt = numpy.float32 if dt is numpy.complex64 else numpy.float64
                env[id(s)] = graph.make_complex(value_pool(fdt, self.rng, self.N), value_pool(fdt, self.rng, self.N))
            elif numpy.dtype(dt).kind == "b":
                env[id(s)] = self.rng.random(self.N) < 0.5
            elif numpy.dtype(dt).kind == "i":
                env[id(s)] = self.rng.integers(-3, 4, size=self.N)
            else:
                env[id(s)] = value_pool(dt, self.rng, self.N)
        if not env:
            env["__dummy__"] = numpy.zeros(self.N)
        return env

    def judge(self, before, after, where, rule):
        """compare two expressions of one context; returns True when judged"""
        rec = self.rec
        key = (id(before), id(after))
        if key in self.seen:
            return False
        self.seen.add(key)
        if wider_than_double(before) or wider_than_double(after):
            # upcast of a float64 value is the platform's long double: named constants (largest, eps, ...) then denote the long double's, which the
            # float64 / exact-rational interpreters of this harness do not model - not judged
            rec.count("skipped:wider-than-double")
            return False
        syms = exprinterp.symbols_of(before)
        syms_after = exprinterp.symbols_of(after)
        ids = {id(s) for s in syms}
        extra = [s for s in syms_after if id(s) not in ids]
        env = self.env_for(syms + extra)
        try:
            neutral = where == "program" and self.updown_fired
            if neutral:
                rec.count("programs:judged-with-updown-cancellation-neutralised")
            a, clean = exprinterp.eval_float(before, env, cancel_updown=neutral)
        except (NotImplementedError, KeyError, TypeError, ValueError, IndexError) as e:
            rec.count("skipped:interp:" + type(e).__name__)
            return False
        try:
            b, _ = exprinterp.eval_float(after, env, cancel_updown=neutral)
        except (NotImplementedError, KeyError) as e:
            rec.count("skipped:interp-after:" + type(e).__name__)
            return False
        except Exception as e:
            rec.violation(f"{where}:result-not-evaluable", dict(rule=rule, before=describe(before), after=describe(after), exc=f"{type(e).__name__}: {e}"[:200]))
            return True
        rec.count("evaluations")
        ok, j = self.same(a, b, clean)
        if not ok:
            names = {id(s): s.operands[0] for s in syms + extra}
            assign = {names[k]: numpy.asarray(v)[j] for k, v in env.items() if k in names}
            self.flagged = True
            tc = getattr(self, "cur_types", None) if where == "step" else None
            rec.violation(f"{where}:float:{rule}" + (":type-change" if tc else ""), dict(before_type=tc[0] if tc else None, after_type=tc[1] if tc else None, rule=rule, before=describe(before), after=describe(after), assignment=assign,
                                                       before_value=pick(a, j), after_value=pick(b, j), symbol_types={s.operands[0]: str(s.operands[1]) for s in syms}))
        rec.count("programs:judged-float" if where == "program" else "steps:judged-float")
        # exact clause (whole programs: only when no floating-point constant folding took part - its rounding is decided by the float clause)
        if where == "step" or not self.folded:
            self.exact(before, after, where, rule, syms + extra)
        else:
            rec.count("exact:skipped-program-with-folding")
        return True

    def same(self, a, b, clean):
        if isinstance(a, list) or isinstance(b, list):
            if not (isinstance(a, list) and isinstance(b, list) and len(a) == len(b)):
                return False, 0
            for x, y in zip(a, b):
                ok, j = self.same(x, y, clean)
                if not ok:
                    return ok, j
            return True, 0
        a = numpy.broadcast_to(numpy.asarray(a), clean.shape)
        b = numpy.broadcast_to(numpy.asarray(b), clean.shape)
        if a.dtype.kind == "b" or b.dtype.kind == "b":
            if a.dtype.kind != b.dtype.kind:
                return False, int(numpy.argmax(clean)) if clean.any() else 0
            diff = (a != b) & clean
        else:
            diff = ~(a == b) & clean
        if diff.any():
            return False, int(numpy.argmax(diff))
        return True, 0

    @staticmethod
    def nonfinite_constants(e):
        import math

        out = set()
        for nd in graph.walk(e):
            if nd.kind == "constant" and not isinstance(nd.operands[0], (str, bool)) and not hasattr(nd.operands[0], "kind"):
                try:
                    v = complex(nd.operands[0])
                    if not (math.isfinite(v.real) and math.isfinite(v.imag)):
                        out.add(repr(v))
                except Exception:
                    pass
            elif nd.kind == "constant" and isinstance(nd.operands[0], str) and nd.operands[0] in ("posinf", "neginf", "nan", "undefined"):
                out.add(nd.operands[0])
        return out

    def exact(self, before, after, where, rule, syms):
        rec = self.rec
        if self.nonfinite_constants(after) - self.nonfinite_constants(before) - {"posinf", "neginf", "nan", "undefined"}:
            # constant folding in the node's dtype overflowed (or produced NaN): outside the exact clause, decided by the float clause
            rec.count("exact:skipped-fold-overflow")
            return
        if any(numpy.dtype(sym_dtype(s)).kind in "c" for s in syms):
            return
        pool = qpool()
        judged = 0
        for t in range(14):
            env = {}
            # the first assignments are structured: all zero, all equal, one symbol zero (ties and zeros are where sign facts and <, <= differ)
            same = self.rnd.choice(pool)
            zero_one = self.rnd.randrange(len(syms)) if syms else 0
            for si, s in enumerate(syms):
                k = numpy.dtype(sym_dtype(s)).kind
                if k == "b":
                    env[s.operands[0]] = self.rnd.random() < 0.5
                elif k == "i":
                    env[s.operands[0]] = self.rnd.randint(-2, 3)
                elif t == 0:
                    env[s.operands[0]] = pool[0]
                elif t == 1:
                    env[s.operands[0]] = same
                elif t == 2 and si == zero_one:
                    env[s.operands[0]] = pool[0]
                else:
                    env[s.operands[0]] = self.rnd.choice(pool)
            def bad(v):
                return v is UNDEF or v is UNKNOWN or (isinstance(v, list) and any(w is UNDEF or w is UNKNOWN for w in v))

            try:
                # the original must be defined: eagerly, in pure exact arithmetic
                qa = exprinterp.eval_Q(before, env, eager=True, fold_constants=False)
                if bad(qa):
                    continue
                qa_h = exprinterp.eval_Q(before, env, eager=True, fold_constants=True)
                if bad(qa_h):
                    continue  # a constant sub-expression overflows / is NaN when folded in its dtype
            except (ZeroDivisionError, IndexError, TypeError):
                continue
            try:
                qb = exprinterp.eval_Q(after, env, fold_constants=False)
                qb_h = exprinterp.eval_Q(after, env, fold_constants=True)
            except ZeroDivisionError:
                qb = qb_h = UNDEF
            except (IndexError, TypeError):
                continue
            if qb is UNKNOWN and qb_h is UNKNOWN:
                continue
            judged += 1

            def eqv(u, v):
                return not bad(u) and not bad(v) and u == v and isinstance(u, bool) == isinstance(v, bool)

            # constant folding in the node's dtype is not a change of meaning: accept agreement under the pure or the folded reading
            if not (eqv(qa, qb) or eqv(qa_h, qb_h) or eqv(qa, qb_h) or eqv(qa_h, qb)):
                rec.violation(f"{where}:exact:{rule}", dict(rule=rule, before=describe(before), after=describe(after), assignment={k: str(v) for k, v in env.items()},
                                                       before_value=str(qa), after_value="undefined" if qb is UNDEF else str(qb)))
                self.flagged = True
                break
        if judged:
            rec.count("programs:judged-exact" if where == "program" else "steps:judged-exact")


SIGN_CLAIMS = {
    "_is_nonnegative": (lambda v: v >= 0, lambda v: v < 0),
    "_is_nonpositive": (lambda v: v <= 0, lambda v: v > 0),
    "_is_positive": (lambda v: v > 0, lambda v: v <= 0),
    "_is_negative": (lambda v: v < 0, lambda v: v >= 0),
    "_is_zero": (lambda v: v == 0, lambda v: v != 0),
    "_is_nonzero": (lambda v: v != 0, lambda v: v == 0),
}
# Expr._is_one is not monitored: no rewrite rule consults it (its claim "abs(x) / square(x) is not one because x is not one" is wrong at
# x = -1, but that cannot change what a rewrite produces, so it is outside this property; noted in DESIGN.md)


def sign_monitor(rec, rnd, root):
    """The rewriter's comparison rules rest on the sign facts inferred by Expr._is_* : every fact claimed for a node of the program
    (True or False; None = no claim) must hold for the node's exact value at every assignment where that value is defined."""
    from fractions import Fraction as F

    nodes = [n for n in graph.walk(root) if hasattr(n, "kind")]
    syms = exprinterp.symbols_of(root)
    if any(numpy.dtype(sym_dtype(s_)).kind != "f" for s_ in syms):
        return
    pool = qpool()
    envs = []
    for t in range(8):
        same = rnd.choice(pool)
        z = rnd.randrange(len(syms)) if syms else 0
        envs.append({s_.operands[0]: (pool[0] if t == 0 or (t == 2 and i_ == z) else same if t == 1 else rnd.choice(pool)) for i_, s_ in enumerate(syms)})
    for n in nodes:
        try:
            if n.kind in ("symbol", "list", "item", "complex") or n.is_complex or n._is_boolean or n.get_type().kind not in ("float", "integer"):
                continue
        except Exception:
            continue
        claims = {}
        for name in SIGN_CLAIMS:
            try:
                c = getattr(n, name)
            except Exception as ex:
                rec.count("sign-monitor:inference-raises:" + type(ex).__name__)
                continue
            if c is not None:
                claims[name] = bool(c)
        if not claims:
            rec.count("sign-monitor:nodes-without-claim")
            continue
        rec.count("sign-monitor:nodes-with-claims")
        for env in envs:
            try:
                v = exprinterp.eval_Q(n, env, eager=True, fold_constants=False)
            except (ZeroDivisionError, IndexError, TypeError, KeyError):
                continue
            if v is UNDEF or v is UNKNOWN or isinstance(v, (bool, list)) or not isinstance(v, (F, int)):
                continue
            rec.count("sign-monitor:claims-checked", len(claims))
            rec.count("evaluations")
            for name, c in claims.items():
                ok = SIGN_CLAIMS[name][0 if c else 1](v)
                if not ok:
                    rec.violation(f"sign-fact:{name}:{n.kind}", dict(rule=name, claim=c, node=describe(n), value=str(v), assignment={k_: str(v_) for k_, v_ in env.items()},
                                                                      operand_kinds=[getattr(o, "kind", type(o).__name__) for o in n.operands]))
                    return


def pick(v, j):
    if isinstance(v, list):
        return [pick(x, j) for x in v]
    v = numpy.asarray(v)
    return v[j] if v.shape else v[()]


def mixed_list(e):
    """a list whose items have different static types (a float32 next to an upcast item): item(list, i) is typed by the package from the list as a whole while
    the evaluators of this harness follow NumPy's promotion of the selected item - such a graph is a mixed-precision graph although its symbols are not"""
    for n in graph.walk(e):
        if n.kind == "list":
            ts = set()
            for it in n.operands:
                try:
                    ts.add(str(it.get_type()))
                except Exception:
                    pass
            if len(ts) > 1:
                return True
    return False


def wider_than_double(e):
    for n in graph.walk(e):
        try:
            t = n.get_type()
        except Exception:
            continue
        if (t.kind == "float" and (t.bits or 0) > 64) or (t.kind == "complex" and (t.bits or 0) > 128):
            return True
    return False


def describe(e):
    try:
        return " ".join(str(e).split())[:400]
    except Exception:
        return f"<{e.kind}>"


def install(rec, judge):
    """a recording contract on every rule method of the real Rewriter (each call is one rule application) and a counter on __call__"""
    from functional_algorithms import rewrite as rw
    from functional_algorithms.expr import known_expression_kinds

    def make_post(rule):
        def post(a, k, result):
            expr = a[1]
            if result is None or result is expr:
                raise contracts.Skip("no-change")
            STEPS[0] += 1
            judge.cur_types = None
            try:
                tb, ta = expr.get_type(), result.get_type()
                if tb.kind in ("float", "complex") and ta.kind in ("float", "complex") and not tb.is_same(ta) and tb.bits is not None and ta.bits is not None:
                    judge.type_changed = True  # the rule replaced a node by one of another precision (mixed-precision graphs only)
                    judge.cur_types = (str(tb), str(ta))
            except Exception:
                pass
            if rule == "upcast" and expr.operands[0].kind == "downcast":
                judge.updown_fired = True
            if result.kind == "constant" and expr.operands and all(getattr(o, "kind", None) == "constant" for o in expr.operands):
                judge.folded = True  # numeric constant folding in the node's dtype happened in this program
            sig = (rule, tuple(o.kind if hasattr(o, "kind") else type(o).__name__ for o in expr.operands)[:3], result.kind)
            rec.cls(*sig)
            if judge.judge(expr, result, "step", rule):
                rec.count("steps:judged")

        return post

    def post_call(a, k, result):
        if result is None:
            raise contracts.Skip("no-change")

    for kind in sorted(known_expression_kinds):
        if kind in rw.Rewriter.__dict__ and callable(rw.Rewriter.__dict__[kind]):
            contracts.attach(rw.Rewriter, kind, make_post(kind), rec, site="Rewriter.rule")
    contracts.attach(rw.Rewriter, "__call__", post_call, rec, site="Rewriter.__call__")


STEPS = [0]

FLOAT_CONSTS = [0, 1, 2, -1, 0.5, -0.5, 3, 1.5, 0.0, 1.0, -0.0, 2.0, 4, 0.25, "largest", "smallest", "eps", "posinf", "neginf", "pi", "smallest_subnormal",
                numpy.float32(1), numpy.float64(2), numpy.float32(0.5), numpy.float64(0), numpy.int64(2)]


class Gen:
    def __init__(self, ctx, rnd, ftype):
        self.ctx, self.rnd = ctx, rnd
        names = "xyz"[: rnd.randint(1, 3)]
        if isinstance(ftype, (list, tuple)):
            # mixed precision: each symbol draws its own type
            self.syms = [ctx.symbol(n, rnd.choice(ftype)) for n in names]
        else:
            self.syms = [ctx.symbol(n, ftype) for n in names]
        self.pool_f = list(self.syms)
        self.pool_b = []
        # a complex symbol now and then: real-valued terms abs(w), real(w), imag(w), real(w*w) ... enter the float expressions
        self.csym = None
        if rnd.random() < 0.3 and not isinstance(ftype, (list, tuple)) and ftype in ("float32", "float64"):
            self.csym = ctx.symbol("w", {"float32": "complex64", "float64": "complex128"}[ftype])

    def const(self):
        return self.ctx.constant(self.rnd.choice(FLOAT_CONSTS), self.rnd.choice(self.syms))

    def f(self, depth):
        rnd, ctx = self.rnd, self.ctx
        if depth <= 0 or rnd.random() < 0.15:
            c = rnd.random()
            if self.csym is not None and c < 0.2:
                w = self.csym
                return rnd.choice([lambda: ctx.absolute(w), lambda: ctx.real(w), lambda: ctx.imag(w), lambda: ctx.real(w * w), lambda: ctx.absolute(w * w), lambda: ctx.imag(ctx.conjugate(w)),
                                   lambda: ctx.absolute(w) * rnd.choice(self.syms), lambda: ctx.absolute(ctx.conjugate(w))])()
            if c < 0.55:
                return rnd.choice(self.syms)
            if c < 0.8 and self.pool_f:
                return rnd.choice(self.pool_f)  # sharing of sub-DAGs
            return self.const()
        k = rnd.choice(["add", "subtract", "multiply", "divide", "negative", "absolute", "minimum", "maximum", "sqrt", "square", "sign", "select", "select",
                        "updown", "item", "realimag", "template", "template"])
        if k in ("negative", "absolute", "sqrt", "square", "sign"):
            e = getattr(ctx, k)(self.f(depth - 1))
        elif k == "select":
            e = ctx.select(self.b(depth - 1), self.f(depth - 1), self.f(depth - 1))
        elif k == "updown":
            a = self.f(depth - 1)
            if rnd.random() < 0.35:
                # a single cast directly over a constant (named constants and literals that are not representable in the narrower type)
                a = ctx.constant(rnd.choice(["eps", "largest", "smallest", "pi", "smallest_subnormal", 0.1, 1 / 3, 1.5, 2]), rnd.choice(self.syms))
                try:
                    e = ctx.upcast(a) if rnd.random() < 0.6 else ctx.downcast(a)
                    self.pool_f.append(e)
                    return e
                except Exception:
                    pass
            try:
                e = ctx.upcast(ctx.downcast(a)) if rnd.random() < 0.5 else ctx.downcast(ctx.upcast(a))
            except Exception:
                e = a
        elif k == "item":
            items = [self.f(depth - 1) for _ in range(rnd.randint(1, 3))]
            e = ctx.item(ctx.list(items), ctx.constant(rnd.randrange(len(items)), int))
        elif k == "realimag":
            z = ctx.complex(self.f(depth - 1), self.f(depth - 1))
            e = rnd.choice([lambda: ctx.real(z), lambda: ctx.imag(z), lambda: ctx.real(ctx.conjugate(z)), lambda: ctx.imag(ctx.conjugate(z)), lambda: ctx.real(ctx.conjugate(ctx.conjugate(z)))])()
        elif k == "template":
            e = self.template_f(depth - 1)
        else:
            e = getattr(ctx, k)(self.f(depth - 1), self.f(depth - 1))
        self.pool_f.append(e)
        return e

    def sign_class(self, cls, depth):
        """an expression whose sign class (pos, nonneg, neg, nonpos) follows compositionally from its operands"""
        rnd, ctx = self.rnd, self.ctx
        flip = {"pos": "neg", "neg": "pos", "nonneg": "nonpos", "nonpos": "nonneg"}
        if depth <= 0 or rnd.random() < 0.25:
            a = self.f(0)
            if cls == "pos":
                return rnd.choice([lambda: ctx.constant(rnd.choice([1, 2, 0.5, 3, "eps", "smallest", "largest", "pi"]), a), lambda: ctx.absolute(a) + ctx.constant(rnd.choice([1, 0.5, "eps"]), a),
                                   lambda: ctx.square(a) + ctx.constant(2, a)])()
            if cls == "nonneg":
                return rnd.choice([lambda: ctx.absolute(a), lambda: ctx.square(a), lambda: ctx.sqrt(ctx.absolute(a)), lambda: a * a, lambda: ctx.constant(0, a)])()
            return -self.sign_class(flip[cls], 0)
        k = rnd.choice(["mul", "mul", "div", "add", "sub", "neg", "sqrt", "abs"])
        strict = cls in ("pos", "neg")
        positive_side = cls in ("pos", "nonneg")
        P, N = ("pos", "neg") if strict else ("nonneg", "nonpos")
        if k in ("mul", "div"):
            # (+,+) (-,-) give the positive side; (+,-) (-,+) the negative side; a weak factor makes the result weak
            ca, cb = rnd.choice([(P, P), (N, N)] if positive_side else [(P, N), (N, P)])
            if not strict and rnd.random() < 0.6:
                # one strict factor and one weak factor
                if rnd.random() < 0.5:
                    ca = {"nonneg": "pos", "nonpos": "neg"}[ca]
                else:
                    cb = {"nonneg": "pos", "nonpos": "neg"}[cb]
            x, y = self.sign_class(ca, depth - 1), self.sign_class(cb, depth - 1)
            if k == "div" and cb in ("pos", "neg"):
                return x / y
            return x * y
        if k == "add":
            return self.sign_class(cls, depth - 1) + self.sign_class(P if positive_side else N, depth - 1) if not strict else \
                self.sign_class(cls, depth - 1) + self.sign_class(rnd.choice(["pos", "nonneg"]) if positive_side else rnd.choice(["neg", "nonpos"]), depth - 1)
        if k == "sub":
            other = (rnd.choice(["neg", "nonpos"]) if positive_side else rnd.choice(["pos", "nonneg"])) if strict else (N if positive_side else P)
            return self.sign_class(cls, depth - 1) - self.sign_class(other, depth - 1)
        if k == "sqrt" and positive_side:
            return ctx.sqrt(self.sign_class(cls, depth - 1))
        if k == "abs" and positive_side:
            return ctx.absolute(self.sign_class(rnd.choice([cls, flip[cls]]), depth - 1))
        return -self.sign_class(flip[cls], depth - 1)

    def signed(self, depth):
        """sub-expressions with an inferable sign"""
        rnd, ctx = self.rnd, self.ctx
        if rnd.random() < 0.6:
            try:
                return self.sign_class(rnd.choice(["pos", "nonneg", "neg", "nonpos"]), min(depth, 2) + 1)
            except (AssertionError, TypeError, ValueError):
                pass
        a = self.f(depth)
        k = rnd.randrange(9)
        if k == 0:
            return ctx.absolute(a)
        if k == 1:
            return -ctx.absolute(a)
        if k == 2:
            return ctx.square(a)
        if k == 3:
            return ctx.sqrt(ctx.absolute(a))
        if k == 4:
            return ctx.absolute(a) + ctx.constant(rnd.choice([1, 0.5, "eps", "smallest"]), a)
        if k == 5:
            return -ctx.square(a) - ctx.constant(rnd.choice([1, 2]), a)
        if k == 6:
            return ctx.absolute(a) * ctx.absolute(self.f(depth))
        if k == 7:
            return ctx.absolute(a) / ctx.constant(rnd.choice([2, "posinf", "largest"]), a)
        return self.const()

    def template_f(self, depth):
        rnd, ctx = self.rnd, self.ctx
        c, c1 = self.b(depth), self.b(depth)
        a, b, y = self.f(depth), self.f(depth), self.f(depth)
        t = rnd.randrange(8)
        if t == 0:
            return ctx.select(c, ctx.select(c1, a, y), y)
        if t == 1:
            return ctx.select(c, ctx.select(c1, y, b), y)
        if t == 2:
            return ctx.select(c, y, ctx.select(c1, a, y))
        if t == 3:
            return ctx.select(c, y, ctx.select(c1, y, b))
        if t == 4:
            return ctx.select(a == b, a, b)
        if t == 5:
            return ctx.select(a != b, a, b)
        if t == 6:
            return ctx.select(rnd.choice([a >= b, a > b, a != b]), y, a)
        return ctx.select(ctx.constant(rnd.random() < 0.5), a, b)

    def b(self, depth):
        rnd, ctx = self.rnd, self.ctx
        if depth <= 0:
            k = rnd.choice(["lt", "le", "gt", "ge", "eq", "ne"])
        else:
            k = rnd.choice(["lt", "le", "gt", "ge", "eq", "ne", "lt", "ge", "logical_and", "logical_or", "logical_not", "logical_xor", "bconst", "signedcmp", "signedcmp", "template", "pool"])
        if self.csym is not None and rnd.random() < 0.12:
            # equality comparisons of complex values (the only comparisons defined for them)
            w = self.csym
            other = rnd.choice([lambda: ctx.constant(0, w), lambda: ctx.conjugate(w), lambda: w * w, lambda: ctx.complex(self.f(0), self.f(0)), lambda: ctx.constant(1, w), lambda: -w])()
            e = (w == other) if rnd.random() < 0.5 else (w != other)
            self.pool_b.append(e)
            return e
        if k == "bconst":
            return ctx.constant(rnd.random() < 0.5)
        if k == "pool":
            return rnd.choice(self.pool_b) if self.pool_b else self.b(depth - 1)
        if k == "logical_not":
            e = ctx.logical_not(self.b(depth - 1))
        elif k in ("logical_and", "logical_or", "logical_xor"):
            e = getattr(ctx, k)(self.b(depth - 1), self.b(depth - 1))
        elif k == "signedcmp":
            op = rnd.choice(["lt", "le", "gt", "ge", "eq", "ne"])
            e = getattr(ctx, op)(self.signed(max(depth - 2, 0)), self.signed(max(depth - 2, 0)))
        elif k == "template":
            y, bb = self.b(depth - 1), self.b(depth - 1)
            t = rnd.randrange(5)
            if t == 0:
                e = ctx.logical_or(ctx.logical_and(ctx.logical_not(y), bb), y)
            elif t == 1:
                e = ctx.logical_or(y, ctx.logical_and(bb, ctx.logical_not(y)))
            elif t == 2:
                a = self.f(depth - 1)
                e = getattr(ctx, rnd.choice(["lt", "le", "gt", "ge", "eq", "ne"]))(a, a)
            elif t == 3:
                a = self.f(depth - 1)
                e = getattr(ctx, rnd.choice(["lt", "le", "gt", "ge", "eq", "ne"]))(ctx.select(y, a, self.f(depth - 1)), self.f(depth - 1))
            else:
                e = ctx.logical_and(ctx.logical_and(y, bb), rnd.choice([y, bb]))
        else:
            e = getattr(ctx, k)(self.f(max(depth - 1, 0)), self.f(max(depth - 1, 0)))
        self.pool_b.append(e)
        return e


class Timeout(Exception):
    pass


def _alarm(signum, frame):
    raise Timeout()


def task_programs(params, rec):
    import functional_algorithms as fa
    from functional_algorithms import rewrite as rw

    judge = Judge(rec, params["seed"] * 1000 + params["shard"])
    install(rec, judge)
    rnd = random.Random(f"c04-{params['seed']}-{params['shard']}")
    xt = graph.make_xt()
    targets = [None, None, None, fa.targets.python, fa.targets.numpy, fa.targets.stablehlo, fa.targets.xla_client, fa.targets.cpp, xt]
    signal.signal(signal.SIGALRM, _alarm)
    for i in range(params["n"]):
        ftype = rnd.choice(["float32", "float64", "float", "float32", "float64", ["float32", "float64"]])
        ctx = fa.Context(paths=[fa.algorithms])
        g = Gen(ctx, rnd, ftype)
        try:
            e = g.b(rnd.randint(1, 5)) if rnd.random() < 0.45 else g.f(rnd.randint(1, 6))
        except (AssertionError, TypeError, NotImplementedError, ValueError, AttributeError) as ex:
            rec.count("generator-refused:" + type(ex).__name__)
            continue
        sign_monitor(rec, rnd, e)
        tgt = rnd.choice(targets)
        deep_first = rnd.choice([True, True, False])
        STEPS[0] = 0
        judge.flagged = False
        judge.folded = False
        judge.updown_fired = False
        judge.type_changed = False
        judge.seen = set()
        step_flagged = False
        signal.alarm(60)
        try:
            with contextlib.redirect_stdout(io.StringIO()):
                if tgt is None:
                    e2 = e.rewrite(rw, deep_first=deep_first)
                else:
                    e2 = e.rewrite(tgt, rw, deep_first=deep_first)
        except NotImplementedError:
            rec.count("refused:NotImplementedError")
            continue
        except Timeout:
            rec.inconc("a rewrite did not finish within the 60 s watchdog (inconclusive, not a violation)")
            continue
        except RecursionError:
            rec.violation("program:no-termination", dict(before=describe(e), target=getattr(tgt, "__name__", str(tgt)), deep_first=deep_first, steps=STEPS[0]))
            continue
        except Exception as ex:
            import traceback

            tb = traceback.extract_tb(ex.__traceback__)
            loc = f"{tb[-1].filename.split('/')[-1]}:{tb[-1].name}"
            rec.violation(f"program:raises:{type(ex).__name__}@{loc}", dict(before=describe(e), target=getattr(tgt, "__name__", str(tgt)), deep_first=deep_first,
                                                                          exc=f"{type(ex).__name__}: {ex}"[:300], symbol_type=str(ftype)))
            continue
        finally:
            signal.alarm(0)
        rec.count("programs:rewritten")
        step_flagged = judge.flagged
        if STEPS[0] > 100000:
            rec.violation("program:too-many-steps", dict(before=describe(e), steps=STEPS[0]))
        if e2 is e:
            continue
        rec.count("programs:nontrivial")
        if step_flagged:
            rec.count("programs:attributed-to-step-violation")
            continue
        if judge.type_changed or isinstance(ftype, (list, tuple)) and len({str(s_.operands[1]) for s_ in g.syms}) > 1 or mixed_list(e):
            # a rule changed the static precision of a node, or the graph holds more than one precision (symbols, or a list of differently typed items): every step is judged by the step monitor
            # (KF-C04-mixed-precision-retyping); the whole-program float comparison would only repeat it
            rec.count("programs:mixed-precision-judged-by-the-step-monitor-only")
            continue
        e_before = e
        if tgt is not None:
            # "alone or after a target's expansion pass": the expansion itself (e.g. abs of a complex value by the package's own hypot algorithm)
            # is not the rewriter's doing - the reference for the whole program is the expanded, not yet rewritten graph
            try:
                with contextlib.redirect_stdout(io.StringIO()):
                    e_before = e.rewrite(tgt)
            except Exception:
                e_before = e
        judge.judge(e_before, e2, "program", "whole:" + (getattr(tgt, "__name__", "rewrite-only").split(".")[-1] if tgt is not None else "rewrite-only"))
        if i < 3:
            rec.sample(dict(before=describe(e), after=describe(e2), target=getattr(tgt, "__name__", None), deep_first=deep_first))
    contracts.detach_all()


def task_shipped(params, rec):
    """rule applications made while generating the shipped algorithms for every target, under the step contract"""
    import functional_algorithms as fa
    from functional_algorithms import rewrite as rw

    judge = Judge(rec, 7)
    judge.N = 48
    install(rec, judge)
    keys = []
    for tname in ("python", "numpy", "stablehlo", "xla_client", "cpp"):
        target = getattr(fa.targets, tname)
        for fname, sigs in target.trace_arguments.items():
            for sig in sigs:
                keys.append((tname, fname, sig))
    keys = keys[params["shard"]:: params["nshards"]]
    for tname, fname, sig in keys:
        target = getattr(fa.targets, tname)
        alt = tname == "xla_client"
        ctx = fa.Context(paths=[fa.algorithms], enable_alt=alt, default_constant_type="FloatType" if alt else None)
        try:
            with contextlib.redirect_stdout(io.StringIO()):
                ctx.trace(getattr(fa.algorithms, fname), *sig).rewrite(target, rw)
            rec.count("shipped:rewritten")
        except NotImplementedError:
            rec.count("shipped:refused")
        except Exception as ex:
            rec.violation("shipped:raises", dict(target=tname, function=fname, signature=list(sig), exc=f"{type(ex).__name__}: {ex}"[:300]))
    contracts.detach_all()


TASKS = {"programs": task_programs, "shipped": task_shipped}
SHARD_TIMEOUT = {"quick": 2400, "thorough": 12000}


def plan(tier, seed):
    n, nsh = (4000, 14) if tier == "quick" else (60000, 16)
    t = [("programs", dict(seed=seed, shard=s, n=n)) for s in range(nsh)]
    t += [("shipped", dict(shard=s, nshards=2 if tier == "quick" else 8)) for s in range(2 if tier == "quick" else 8)]
    return t


def replay(site, witness, rec):
    # re-run the shard-independent templates that exercise the named rule family
    task_programs(dict(seed=0, shard=0, n=400), rec)
