"""Named, reviewed predicates for known findings.  Each takes (site, witness) and decides whether the violation is an
instance of the *mechanism* the finding describes.  Keep them as tight as the mechanism allows."""


def _unfl(d):
    return float.fromhex(d["hex"]) if isinstance(d, dict) and "hex" in d else d


def c14_array_form_over_int64(site, w):
    """array form of diff_ulp in float64 when some distance >= 2**63: result is the float64 rounding of the exact distances"""
    if site != "array-form" or w.get("dtype") != "float64":
        return False
    exp, got = w["expected"], w["got"]
    return max(exp) >= 2**63 and all(int(float(e)) == int(g) for e, g in zip(exp, got))


def _vals(x):
    """witness scalar (real: dict, complex: [dict, dict]) -> tuple of python floats"""
    if isinstance(x, list):
        return tuple(_unfl(v) for v in x)
    return (_unfl(x),)


def c03_odd_zero_sign(site, w):
    """oddness f(-z) == -f(z) fails only in the sign of a zero-valued output component, at an input with a zero component
    (off the branch cut): the final `select(signed_component < 0, -v, v)` cannot see the sign of a zero."""
    if not (site.startswith("odd") and site.endswith(":zero-sign-only")):
        return False
    if not w.get("zero_component"):
        return False
    z = _vals(w["z"])
    if not any(v == 0 for v in z):
        return False
    lhs, rhs = _vals(w["lhs"]), _vals(w["rhs"])
    differs_somewhere = False
    for a, b in zip(lhs, rhs):
        if a != a and b != b:
            continue
        if a != b:
            return False  # values differ: not this mechanism
        if a == 0 and str(a) != str(b):
            differs_somewhere = True
    return differs_somewhere
