"""E5: multiprecision oracle (Ziv strategy), independent of functional_algorithms.utils.

Real and complex reference values are computed from *exact* inputs with real mpmath primitives (log, atan2, sqrt, exp,
cos, sin, asin, acos, asinh, acosh) at a working precision chosen from the exponents involved, then re-computed at twice
that precision; a value is accepted when both round to the same float and the second is not near a rounding boundary.

Complex results are returned as a *set* of candidates: one per side of a branch cut when a zero component makes the
result depend on the sign of zero; infinite components are handled by numeric limits (two huge substitutes).
Special markers: ("inf", sign), ("undef",) (any value incl. NaN accepted), ("anyfinite",).
"""
from fractions import Fraction as F
import math

import mpmath
import numpy

from . import exact

CAP = 40000


def _mpf(ctx, x):
    """exact conversion float -> mpf in ctx (any precision: from_man_exp without rounding)"""
    q = F(float(x))
    if q == 0:
        return ctx.mpf(0)
    n, d = q.numerator, q.denominator
    return ctx.make_mpf(mpmath.libmp.from_man_exp(n, -(d.bit_length() - 1)))


def mp_to_units(v):
    """mpf -> (n, k) with value == n * 2**k exactly"""
    sign, man, exp, bc = v._mpf_
    return (-int(man) if sign else int(man)), int(exp)


def rn_mp(v, f):
    """ordinal of RN(v) for finite mpf v in format f"""
    n, k = mp_to_units(v)
    return exact.rn_int_ordinal(n, k, f)


def exponent_of(x):
    if x == 0 or not math.isfinite(x):
        return 0
    return math.frexp(float(x))[1]


class Inconclusive(Exception):
    pass


class Oracle:
    def __init__(self, dt):
        self.dt = numpy.dtype(dt).type
        self.f = exact.fmt(dt)
        self.p = self.f.p
        self._ctx = {}

    def ctx(self, prec):
        c = self._ctx.get(prec)
        if c is None:
            c = mpmath.mp.clone()
            c.prec = prec
            self._ctx[prec] = c
        return c

    def base_prec(self, comps):
        e = max([abs(exponent_of(c)) for c in comps] + [0])
        return 4 * self.p + 64 + 3 * e

    # ---------------------------------------------------------------- Ziv driver
    def ziv(self, fn, comps, ncomp=1, prec0=None):
        """fn(ctx, *mp_components) -> tuple of ncomp mp values (or markers). Returns list of per-component results:
        ('val', ordinal, mpvalue) | marker tuple"""
        P = prec0 or self.base_prec(comps)
        prev = None
        while P <= CAP:
            ctx = self.ctx(P)
            args = [_mpf(ctx, c) if not isinstance(c, (mpmath.mpf,)) and not isinstance(c, tuple) else c for c in comps]
            out = fn(ctx, *args)
            if not isinstance(out, tuple):
                out = (out,)
            cur = []
            for v in out:
                if isinstance(v, tuple):
                    cur.append(v)
                elif not ctx.isfinite(v):
                    if ctx.isnan(v):
                        cur.append(("undef",))
                    else:
                        cur.append(("inf", -1 if v < 0 else 1))
                else:
                    cur.append(("val", rn_mp(v, self.f), v))
            if prev is not None and self._stable(prev, cur, Pprev):
                return cur
            prev, Pprev = cur, P
            P *= 2
        raise Inconclusive(f"oracle not stable up to {CAP} bits")

    def _stable(self, a, b, Pa):
        for x, y in zip(a, b):
            if x[0] != y[0]:
                return False
            if x[0] != "val":
                if x != y:
                    return False
                continue
            if x[1] != y[1]:
                return False
            # y's value must not sit within 2^-(Pa/2) (relative) of a rounding boundary
            v = y[2]
            n, k = mp_to_units(v)
            if n == 0:
                continue
            e_ = abs(n).bit_length() - 1 + k
            if e_ < self.f.emin - self.f.p - 4 or e_ > self.f.emax + 2:
                continue  # far outside the format: rounds to zero / infinity whatever the last bits are
            # relative perturbation 2^-(Pa/2): scale the integer so that +-1 is that small
            s = max(Pa // 2 - (n.bit_length() - 1), 0)
            sh = max(n.bit_length() - 1 - Pa // 2, 0)
            n2, k2, d = (n << s), k - s, 1 << sh
            exactly_representable = exact.rn_int_ordinal(n, k, self.f) == y[1] and self._is_exact(n, k)
            if exactly_representable:
                continue  # an exactly representable value computed identically at two precisions
            if exact.rn_int_ordinal(n2 + d, k2, self.f) != y[1] or exact.rn_int_ordinal(n2 - d, k2, self.f) != y[1]:
                return False
        return True

    def _is_exact(self, n, k):
        """is n*2^k exactly representable in the target format (finite)?"""
        f = self.f
        a = abs(n)
        if a == 0:
            return True
        e = a.bit_length() - 1 + k
        if e > f.emax:
            return False
        ee = max(e, f.emin)
        shift = ee - f.p + 1 - k
        return shift <= 0 or (a & ((1 << shift) - 1)) == 0

    def to_float(self, r):
        """result entry -> numpy scalar (for reporting)"""
        if r[0] == "val":
            return exact.from_ordinal(self.dt, r[1])
        if r[0] == "inf":
            return self.dt(r[1] * numpy.inf)
        return self.dt(numpy.nan)

    # ---------------------------------------------------------------- real functions
    def real(self, fname, x, y=None):
        """correctly rounded real function value: ('val', ordinal, v) | ('inf', s) | ('nan',)"""
        x = float(x)
        if fname == "hypot":
            y = float(y)
            if math.isinf(x) or math.isinf(y):
                return ("inf", 1)
            return self.ziv(lambda c, a, b: c.sqrt(a * a + b * b), [x, y], prec0=self.base_prec([x, y]) + 2 * abs(exponent_of(x) - exponent_of(y)))[0]
        if math.isinf(x):
            return {"absolute": ("inf", 1), "square": ("inf", 1), "asinh": ("inf", 1 if x > 0 else -1), "acosh": ("inf", 1) if x > 0 else ("nan",),
                    "asin": ("nan",), "acos": ("nan",)}[fname]
        if fname in ("asin", "acos") and abs(x) > 1:
            return ("nan",)
        if fname == "acosh" and x < 1:
            return ("nan",)
        if fname == "absolute":
            return ("val", abs(exact.ordinal(self.dt(x))), None)
        if fname == "square":
            q = F(x) ** 2
            return ("val", exact.ordinal(exact.RN(q, self.dt)) if exact.RN(q, self.dt) != numpy.inf else self.f.inf_bits, None) if abs(q) <= self.f.max * 2 else ("inf", 1)
        fn = {"asin": lambda c, a: c.asin(a), "acos": lambda c, a: c.acos(a), "asinh": lambda c, a: c.asinh(a), "acosh": lambda c, a: c.acosh(a)}[fname]
        r = self.ziv(fn, [x])[0]
        return r

    # ---------------------------------------------------------------- complex functions (finite, non-zero components)
    def _cfun(self, fname):
        def absolute(c, x, y):
            return (c.sqrt(x * x + y * y),)

        def square(c, x, y):
            return ((x - y) * (x + y), 2 * x * y)

        def sqrt(c, x, y):
            h = c.sqrt(x * x + y * y)
            if x >= 0:
                u = c.sqrt((h + x) / 2)
                return (u, y / (2 * u))
            v = c.sqrt((h - x) / 2)
            if y < 0:
                v = -v
            return (y / (2 * v), v)

        def exp(c, x, y):
            e = c.exp(x)
            return (e * c.cos(y), e * c.sin(y))

        def log(c, x, y):
            return (c.log(x * x + y * y) / 2, c.atan2(y, x))

        def log2(c, x, y):
            l2 = c.ln2
            return (c.log(x * x + y * y) / (2 * l2), c.atan2(y, x) / l2)

        def log10(c, x, y):
            l10 = c.ln10
            return (c.log(x * x + y * y) / (2 * l10), c.atan2(y, x) / l10)

        def log1p(c, x, y):
            x1 = 1 + x
            return (c.log(x1 * x1 + y * y) / 2, c.atan2(y, x1))

        def atanh(c, x, y):
            num = (1 + x) * (1 + x) + y * y
            den = (1 - x) * (1 - x) + y * y
            return (c.log(num / den) / 4, c.atan2(2 * y, (1 - x) * (1 + x) - y * y) / 2)

        def atan(c, x, y):
            # atan(z) = -i atanh(i z), i z = (-y, x)
            re, im = atanh(c, -y, x)
            return (im, -re)

        def viampc(name):
            def g(c, x, y):
                w = getattr(c, name)(c.mpc(x, y))
                return (w.real, w.imag)

            return g

        table = dict(absolute=absolute, square=square, sqrt=sqrt, exp=exp, log=log, log2=log2, log10=log10, log1p=log1p, atanh=atanh, atan=atan,
                     asin=viampc("asin"), acos=viampc("acos"), asinh=viampc("asinh"), acosh=viampc("acosh"))
        return table[fname]

    NCOMP = dict(absolute=1)

    def _poles(self, fname, x, y):
        """exact singular points: returns list of candidate tuples or None"""
        anyf = ("anyfinite",)
        if fname in ("log", "log2", "log10") and x == 0 and y == 0:
            return [(("inf", -1), anyf)]
        if fname == "log1p" and x == -1 and y == 0:
            return [(("inf", -1), anyf)]
        if fname == "atanh" and abs(x) == 1 and y == 0:
            return [(("inf", 1 if x > 0 else -1), anyf)]
        if fname == "atan" and x == 0 and abs(y) == 1:
            return [(anyf, ("inf", 1 if y > 0 else -1))]
        return None

    def complex(self, fname, x, y):
        """list of candidate results [(re_entry, im_entry) or (abs_entry,)] for f(x + i y), x, y python floats (non-NaN)"""
        x, y = float(x), float(y)
        poles = self._poles(fname, x, y)
        if poles is not None:
            return poles
        if math.isinf(x) or math.isinf(y):
            if x == 0 or y == 0:
                # a zero next to an infinity: either side of a possible cut is accepted
                out = []
                for s_ in (0.0, -0.0):
                    for cnd in self._at_infinity(fname, s_ if x == 0 else x, s_ if y == 0 else y):
                        out.append(cnd)
                return out
            return self._at_infinity(fname, x, y)
        fn = self._cfun(fname)
        # zero components: evaluate on either side (the result may depend on the sign of zero on a cut); delta far below every float
        variants = [(x, y)]
        if (x == 0 or y == 0) and fname not in ("absolute", "exp", "square"):  # entire functions have no cut: evaluate at the exact zero
            variants = []
            for sx in ((1, -1) if x == 0 else (None,)):
                for sy in ((1, -1) if y == 0 else (None,)):
                    variants.append((("delta", sx) if sx else x, ("delta", sy) if sy else y))
        cands = []
        seen = set()
        for vx, vy in variants:
            if isinstance(vx, tuple) or isinstance(vy, tuple):
                DELTA_EXP = -3 * (self.f.emax + self.p)
                P0 = self.base_prec([c for c in (x, y) if c != 0]) + 2 * (-DELTA_EXP) + 64

                def fnd(c, *args, vx=vx, vy=vy):
                    it = iter(args)
                    ax = c.ldexp(c.mpf(vx[1]), DELTA_EXP) if isinstance(vx, tuple) else next(it)
                    ay = c.ldexp(c.mpf(vy[1]), DELTA_EXP) if isinstance(vy, tuple) else next(it)
                    return fn(c, ax, ay)

                comps = [c for c in (vx, vy) if not isinstance(c, tuple)]
                if P0 > CAP:
                    raise Inconclusive("precision cap for zero-component input")
                r = tuple(self.ziv(fnd, comps, prec0=P0))
            else:
                r = tuple(self.ziv(fn, [vx, vy]))
            key = tuple((e[0], e[1]) for e in r)
            if key not in seen:
                seen.add(key)
                cands.append(r)
        return cands

    def _at_infinity(self, fname, x, y):
        """limits by substitution of two huge magnitudes; a component that keeps growing is infinite, one that converges is its limit,
        one that depends on the relative growth of two infinite components is undefined (any value accepted)"""
        fn = self._cfun(fname)
        if fname == "exp":
            # exp(x + i y): |w| = e^x, arg = y
            if math.isinf(y):
                if x == -math.inf:
                    return [(("zero",), ("zero",))]
                return [(("undef",), ("undef",))]
            if x == -math.inf:
                return [(("zero",), ("zero",))]
            # x = +inf, finite y: inf * (cos y, sin y)
            c = self.ctx(4 * self.p + 64 + 3 * abs(exponent_of(y)))
            cy, sy = c.cos(_mpf(c, y)), c.sin(_mpf(c, y))
            re = ("inf", 1 if cy > 0 else -1) if cy != 0 else ("undef",)
            im = ("inf", 1 if sy > 0 else -1) if sy != 0 else (("zero",) if y == 0 else ("undef",))
            return [(re, im)]
        if fname == "square":
            if math.isinf(x) and math.isinf(y):
                return [(("undef",), ("inf", 1 if (x > 0) == (y > 0) else -1))]
            if math.isinf(x):
                return [(("inf", 1), ("inf", 1 if (x > 0) == (y > 0) else -1) if y != 0 else ("undef",))]
            return [(("inf", -1), ("inf", 1 if (x > 0) == (y > 0) else -1) if x != 0 else ("undef",))]
        E1, E2 = 2500, 6000
        TINY = mpmath.mpf(2) ** (-1000)
        results = []
        fx = x if math.isfinite(x) else 0.0
        fy = y if math.isfinite(y) else 0.0
        for ex, ey in ((E1, E1), (E2, E2), (E1, E2), (E2, E1)):
            P = 4 * self.p + 256 + 3 * max(ex, ey) + 3 * max(abs(exponent_of(fx)), abs(exponent_of(fy)))
            c = self.ctx(P)
            zero = c.ldexp(c.mpf(1), -20 * E2)
            ax = c.ldexp(c.mpf(1 if x > 0 else -1), ex) if math.isinf(x) else (_mpf(c, x) if x != 0 else zero * (1 if math.copysign(1, x) > 0 else -1))
            ay = c.ldexp(c.mpf(1 if y > 0 else -1), ey) if math.isinf(y) else (_mpf(c, y) if y != 0 else zero * (1 if math.copysign(1, y) > 0 else -1))
            results.append(fn(c, ax, ay))
            if not (math.isinf(x) and math.isinf(y)) and len(results) == 2:
                break
        ncomp = len(results[0])
        out = []
        for i in range(ncomp):
            vals = [r[i] for r in results]
            a, b = vals[0], vals[1]
            growing = abs(b) > 2 * abs(a) and abs(b) > 1000
            if growing:
                entry = ("inf", 1 if b > 0 else -1)
            elif abs(a) < TINY and abs(b) < TINY:
                entry = ("zero",)
            elif abs(a - b) <= abs(b) * mpmath.mpf(2) ** (-3 * self.p):
                entry = ("val", rn_mp(b, self.f), b)
            else:
                entry = ("undef",)
            if len(vals) == 4 and entry[0] != "undef":
                # both components infinite: the limit must not depend on the relative growth
                for w in (vals[2], vals[3]):
                    if entry[0] == "inf":
                        ok = abs(w) > 1000 and (w > 0) == (entry[1] > 0)
                    elif entry[0] == "zero":
                        ok = abs(w) < TINY
                    else:
                        ok = abs(w - b) <= abs(b) * mpmath.mpf(2) ** (-3 * self.p)
                    if not ok:
                        entry = ("undef",)
                        break
            out.append(entry)
        return [tuple(out)]
