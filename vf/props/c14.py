"""C14 — the ULP metric is the integer distance on the float lattice; ulp() satisfies its nextafter identities.

Contracts on utils.diff_ulp / diff_log2ulp / ulp; oracle = vf.exact ordinals (independent) plus oracle-free algebraic
laws (zero iff equal, symmetry, k-th neighbour, additivity along monotone chains, complex = max of parts, flush consistency).
"""
import numpy

from .. import exact, gen, contracts
from ..core import unfl

LEVEL = "exploration"
RULE = ("float16: every finite value against its k-th neighbours (k in 1,2,3,5,8,13,33,64; both directions, across zero and binades) and "
        "ulp() on every bit pattern; random/hostile pairs and monotone triples in float16/32/64; both flush modes; complex and array forms. "
        "distinct_nontrivial = distinct (dtype, law, sign-relation, magnitude-class pair, flush) tuples with x != y")
ASSUME = ["numpy.nextafter and numpy bit views define the lattice"]
REQUIRE = ["evaluations", "contract:utils.diff_ulp:evaluated", "contract:utils.ulp:evaluated", "law:neighbour", "law:additive", "law:flush", "law:complex", "law:complex-flush", "law:default-switch", "law:ulp-identity"]


def EXHAUSTIVE(tier):
    return "float16: k-th neighbour law for every finite value and k in {1,2,3,5,8,13,33,64}; ulp() identities on all 65536 bit patterns"


def mag_class(x):
    f = exact.fmt(x.dtype)
    a = abs(exact.ordinal(x) or 0)
    if a == 0:
        return "zero"
    if a < (1 << (f.p - 1)):
        return "sub"
    if a >= f.inf_bits - (1 << (f.p - 1)):
        return "top"
    return "norm"


def w2(x, y, **kw):
    d = dict(dtype=x.dtype.name, x=x, y=y, xbits=hex(exact.bits_of(x)), ybits=hex(exact.bits_of(y)))
    d.update(kw)
    return d


def install(rec, utils):
    def post_diff_ulp(a, k, r):
        x, y = a[0], a[1]
        if not (isinstance(x, numpy.floating) and isinstance(y, numpy.floating) and type(x) is type(y)):
            raise contracts.Skip("nonscalar")
        if not (numpy.isfinite(x) and numpy.isfinite(y)):
            raise contracts.Skip("nonfinite")
        fl = k.get("flush_subnormals", a[2] if len(a) > 2 else utils.UNSPECIFIED)
        if fl is utils.UNSPECIFIED:
            fl = utils.default_flush_subnormals
        if fl:
            raise contracts.Skip("flush")  # judged by the flush-consistency law
        e = exact.ulp_distance(x, y)
        if int(r) != e:
            rec.violation("diff_ulp-lattice", w2(x, y, got=int(r), expected=e))

    def post_ulp(a, k, r):
        x = a[0]
        if not isinstance(x, numpy.floating):
            raise contracts.Skip("nonscalar")
        dt = type(x)
        if numpy.isnan(x):
            ok = bool(numpy.isnan(r))
        elif numpy.isinf(x):
            ok = bool(r == dt(numpy.inf))
        else:
            with numpy.errstate(all="ignore"):
                if x >= 0:
                    ok = bool(x + r == numpy.nextafter(x, dt(numpy.inf)))
                else:
                    ok = bool(x - r == numpy.nextafter(x, dt(-numpy.inf)))
            ok = ok and type(r) is dt
        rec.count("law:ulp-identity")
        if not ok:
            site = "ulp-identity" + ("-subnormal" if (numpy.isfinite(x) and x != 0 and abs(x) < numpy.finfo(dt).smallest_normal) else "")
            rec.violation(site, dict(dtype=x.dtype.name, x=x, bits=hex(exact.bits_of(x)), ulp=r))

    contracts.attach(utils, "diff_ulp", post_diff_ulp, rec, site="utils.diff_ulp")
    contracts.attach(utils, "ulp", post_ulp, rec, site="utils.ulp")


KS = (1, 2, 3, 5, 8, 13, 33, 64)


def task_f16_neighbours(params, rec):
    from functional_algorithms import utils

    install(rec, utils)
    dt = numpy.float16
    f = exact.fmt(dt)
    maxo = f.inf_bits - 1
    ords = numpy.arange(-maxo, maxo + 1)[params["shard"]:: params["nshards"]]
    for o in ords:
        x = exact.from_ordinal(dt, o)
        for k in KS:
            for sgn in (1, -1):
                o2 = o + sgn * k
                if abs(o2) > maxo:
                    continue
                y = exact.from_ordinal(dt, o2)
                rec.count("evaluations")
                rec.count("law:neighbour")
                d = utils.diff_ulp(x, y, flush_subnormals=False)
                if d != k:
                    rec.violation("neighbour-law", w2(x, y, k=k, got=int(d)))
                if o * o2 < 0 or (mag_class(x) != mag_class(y)):
                    rec.cls("float16", "neighbour", "cross", mag_class(x), mag_class(y), k)
        if o == 0:
            # both zeros are the same lattice point
            for a_, b_ in ((dt(0.0), dt(-0.0)), (dt(-0.0), dt(0.0))):
                if utils.diff_ulp(a_, b_) != 0:
                    rec.violation("zero-signs-equal", w2(a_, b_))
    # ulp on this shard's bit patterns (all 65536 across shards)
    allv = exact.all_values(dt)[params["shard"]:: params["nshards"]]
    for x in allv:
        rec.count("evaluations")
        with numpy.errstate(all="ignore"):
            u = utils.ulp(dt(x))
            um = utils.ulp(dt(-x))
        if not (u == um or (numpy.isnan(u) and numpy.isnan(um))):
            rec.violation("ulp-even", dict(dtype="float16", x=dt(x), ulp=u, ulp_neg=um))
    rec.sample(dict(law="neighbour", dtype="float16", x=exact.from_ordinal(dt, ords[0]), k=list(KS)))
    contracts.detach_all()


def flush_phi(utils, x):
    """the image of x under the package's own flush map, read off its distance to zero: 0, or +-1 (smallest normal)"""
    d0 = int(utils.diff_ulp(x, type(x)(0), flush_subnormals=True))
    return d0


def task_pairs(params, rec):
    from functional_algorithms import utils

    install(rec, utils)
    dt = getattr(numpy, params["dtype"])
    f = exact.fmt(dt)
    rng = gen.rng_for(params["seed"], 14, params["shard"], f.bits)
    n = params["n"]
    xs = gen.hostile_values(rng, dt, n)
    ys = gen.hostile_values(rng, dt, n)
    # a third of the pairs: y within a few thousand ulps of x, possibly across zero / binade
    near = rng.random(n) < 0.35
    oy = numpy.clip(exact.ordinal_arr(xs) + rng.integers(-5000, 5000, size=n), -(f.inf_bits - 1), f.inf_bits - 1)
    ys = numpy.where(near, exact.from_ordinal_arr(dt, oy), ys)
    # subnormal-heavy portion (flush mode lives there)
    subn = rng.random(n) < 0.25
    so = rng.integers(-(1 << (f.p - 1)) - 3, (1 << (f.p - 1)) + 4, size=n)
    xs = numpy.where(subn, exact.from_ordinal_arr(dt, so), xs)
    zs = gen.hostile_values(rng, dt, n)
    i = numpy.finfo(dt).smallest_normal
    ord_min_normal = 1 << (f.p - 1)
    for j in range(n):
        x, y, z = dt(xs[j]), dt(ys[j]), dt(zs[j])
        rec.count("evaluations")
        d = utils.diff_ulp(x, y, flush_subnormals=False)
        ddef = utils.diff_ulp(x, y)
        dr = utils.diff_ulp(y, x, flush_subnormals=False)
        if d != dr:
            rec.violation("symmetry", w2(x, y, d_xy=int(d), d_yx=int(dr)))
        if ddef != d and not utils.default_flush_subnormals:
            rec.violation("default-flush-mode", w2(x, y, d_default=int(ddef), d_false=int(d)))
        if (d == 0) != bool(x == y):
            rec.violation("zero-iff-equal", w2(x, y, d=int(d)))
        if utils.diff_log2ulp(x, y, flush_subnormals=False) != int(d).bit_length():
            rec.violation("log2ulp", w2(x, y, d=int(d)))
        # additivity along a monotone chain
        a, b, c = sorted([x, y, z])
        dab = utils.diff_ulp(a, b, flush_subnormals=False)
        dbc = utils.diff_ulp(b, c, flush_subnormals=False)
        dac = utils.diff_ulp(a, c, flush_subnormals=False)
        rec.count("law:additive")
        if dab + dbc != dac:
            rec.violation("additivity", dict(dtype=x.dtype.name, a=a, b=b, c=c, dab=int(dab), dbc=int(dbc), dac=int(dac)))
        # complex: max of parts; array form
        cdt = {numpy.float32: numpy.complex64, numpy.float64: numpy.complex128}.get(dt)
        if cdt is not None and j % 4 == 0:
            z1 = cdt(complex(float(x), float(z)))
            z2 = cdt(complex(float(y), float(x)))
            dc = utils.diff_ulp(z1, z2, flush_subnormals=False)
            e = max(exact.ulp_distance(x, y), exact.ulp_distance(z, x))
            rec.count("law:complex")
            if dc != e:
                rec.violation("complex-max", dict(dtype=cdt.__name__, z1=z1, z2=z2, got=int(dc), expected=int(e)))
            # the same law with flushing enabled: both components in flush mode (the scalar flush distance is judged by the consistency law below)
            dcf = utils.diff_ulp(z1, z2, flush_subnormals=True)
            ef_ = max(int(utils.diff_ulp(x, y, flush_subnormals=True)), int(utils.diff_ulp(z, x, flush_subnormals=True)))
            rec.count("law:complex-flush")
            if dcf != ef_:
                rec.violation("complex-max-flush", dict(dtype=cdt.__name__, z1=z1, z2=z2, got=int(dcf), expected=int(ef_)))
        elif cdt is None:
            rec.count("law:complex", 0)
        if j % 8 == 1 and hasattr(utils, "default_flush_subnormals"):
            # "flushing enabled" through the module-level switch: an unspecified mode follows the switch as it is at call time
            saved = utils.default_flush_subnormals
            try:
                for mode in (True, False):
                    utils.default_flush_subnormals = mode
                    got_ = int(utils.diff_ulp(x, y))
                    want_ = int(utils.diff_ulp(x, y, flush_subnormals=mode))
                    rec.count("law:default-switch")
                    if got_ != want_:
                        rec.violation("default-flush-switch", w2(x, y, switch=mode, got=got_, expected=want_))
                    if utils.diff_log2ulp(x, y) != utils.diff_log2ulp(x, y, flush_subnormals=mode):
                        rec.violation("default-flush-switch", w2(x, y, switch=mode, function="diff_log2ulp"))
            finally:
                utils.default_flush_subnormals = saved
        if j % 16 == 0:
            arr = utils.diff_ulp(numpy.array([x, y, z]), numpy.array([y, z, x]), flush_subnormals=False)
            exp_ = [exact.ulp_distance(x, y), exact.ulp_distance(y, z), exact.ulp_distance(z, x)]
            if [int(v) for v in arr] != exp_:
                rec.violation("array-form", dict(dtype=x.dtype.name, x=x, y=y, z=z, got=[int(v) for v in arr], expected=exp_))
        # flush mode: consistent collapse of subnormals
        df = int(utils.diff_ulp(x, y, flush_subnormals=True))
        rec.count("law:flush")

        def img(v):
            o = exact.ordinal(v)
            if abs(o) >= ord_min_normal:
                return (abs(o) - (ord_min_normal - 1)) * (1 if o > 0 else -1)
            p = flush_phi(utils, v)
            if p not in (0, 1):
                rec.violation("flush-image", dict(dtype=v.dtype.name, x=v, image_distance_to_zero=p))
            return p * (1 if o > 0 else -1)

        ef = abs(img(x) - img(y))
        if df != ef:
            rec.violation("flush-consistency", w2(x, y, got=df, expected=ef))
        if df != int(utils.diff_ulp(y, x, flush_subnormals=True)):
            rec.violation("flush-symmetry", w2(x, y))
        if x != y:
            sr = "opp" if (x < 0) != (y < 0) and x != 0 and y != 0 else "same"
            rec.cls(x.dtype.name, sr, mag_class(x), mag_class(y), "near" if d < 10000 else "far")
    # flush map is monotone in |x| over subnormals and sign-symmetric (sampled over the subnormal range)
    half = ord_min_normal // 2
    edge = [1, 2, 3, half - 2, half - 1, half, half + 1, half + 2, ord_min_normal - 3, ord_min_normal - 2, ord_min_normal - 1]  # ends and the tie region, always
    subs = exact.from_ordinal_arr(dt, numpy.unique(numpy.concatenate([rng.integers(1, ord_min_normal, size=300), numpy.array([e_ for e_ in edge if 1 <= e_ < ord_min_normal])])))
    # the collapse is to the nearer of {0, smallest normal}: the smallest subnormal goes to 0, the largest to the smallest normal
    for end, want in ((1, 0), (ord_min_normal - 1, 1)):
        v_ = exact.from_ordinal(dt, end)
        for sg in (1, -1):
            rec.count("law:flush")
            if flush_phi(utils, dt(sg * v_)) != want:
                rec.violation("flush-map-endpoint", dict(dtype=dt.__name__, x=dt(sg * v_), phi=flush_phi(utils, dt(sg * v_)), expected=want))
    prev = 0
    for s in subs:
        p = flush_phi(utils, dt(s))
        pm = flush_phi(utils, dt(-s))
        if p < prev or p != pm or p not in (0, 1):
            rec.violation("flush-map-monotone", dict(dtype=dt.__name__, x=dt(s), phi=p, phi_neg=pm, prev=prev))
        prev = max(prev, p)
    # ulp identities on samples
    us = numpy.concatenate([xs[: n // 2], gen.neighbours(gen.specials(dt, nan=True), dt, k=2), numpy.array([numpy.nan, numpy.inf, -numpy.inf], dtype=dt)])
    for x in us:
        rec.count("evaluations")
        with numpy.errstate(all="ignore"):
            u = utils.ulp(dt(x))
            um = utils.ulp(dt(-x))
        if not (u == um or (numpy.isnan(u) and numpy.isnan(um))):
            rec.violation("ulp-even", dict(dtype=dt.__name__, x=dt(x), ulp=u, ulp_neg=um))
    rec.sample(dict(law="pairs", dtype=dt.__name__, x=dt(xs[0]), y=dt(ys[0]), z=dt(zs[0])))
    contracts.detach_all()


TASKS = {"f16_neighbours": task_f16_neighbours, "pairs": task_pairs}


def plan(tier, seed):
    t = [("f16_neighbours", dict(shard=s, nshards=8)) for s in range(8)]
    n, nsh = (20000, 4) if tier == "quick" else (600000, 5)
    for dtn in ("float16", "float32", "float64"):
        for s in range(nsh):
            t.append(("pairs", dict(dtype=dtn, shard=s, n=n, seed=seed)))
    return t


def replay(site, witness, rec):
    from functional_algorithms import utils

    install(rec, utils)
    dt = getattr(numpy, witness.get("dtype", "float64")) if witness.get("dtype", "").startswith("float") else None
    if dt is not None and "x" in witness and "y" in witness:
        x, y = unfl(witness["x"], dt), unfl(witness["y"], dt)
        for fl in (False, True):
            utils.diff_ulp(x, y, flush_subnormals=fl)
        if "k" in witness and utils.diff_ulp(x, y, flush_subnormals=False) != witness["k"]:
            rec.violation("neighbour-law", w2(x, y, k=witness["k"]))
    elif dt is not None and "x" in witness:
        with numpy.errstate(all="ignore"):
            utils.ulp(unfl(witness["x"], dt))
    contracts.detach_all()
