#!/usr/bin/env python
"""debug helper: run a property's plan (optionally filtered) in-process shards and print every recorded witness compactly"""
import json, sys, os, collections
sys.path.insert(0, os.path.dirname(os.path.dirname(os.path.abspath(__file__))))
from vf import core
pid, tier = sys.argv[1], sys.argv[2]
flt = sys.argv[3] if len(sys.argv) > 3 else ""
seed = int(os.environ.get("VERIF_SEED", "0"))
mod = core.load(pid)
rec = core.Recorder(pid)
tasks = [t for t in mod.plan(tier, seed) if flt in json.dumps(t)]
core.run_tasks(pid, tasks, rec)
def short(v):
    if isinstance(v, dict) and "repr" in v: return v["repr"]
    if isinstance(v, list): return [short(x) for x in v]
    if isinstance(v, dict): return {k: short(x) for k, x in v.items()}
    return v
for v in rec.violations:
    print(("KNOWN:" + v["known"] + " " if "known" in v else "") + v["site"], json.dumps(short(v["witness"]))[:int(os.environ.get("W", "400"))])
print(dict(rec.viol_counts)); print("known", dict(rec.known_counts)); print("inconclusive", rec.inconclusive[:3])
