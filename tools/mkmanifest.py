#!/usr/bin/env python3
"""Regenerates /verif/MANIFEST.json from the table below (keeps it valid at all times)."""
import json
import os
import subprocess

ROOT = os.path.dirname(os.path.dirname(os.path.abspath(__file__)))

ALL = [f"C{i:02d}" for i in range(1, 20)]

# pid -> (category, technique, level text, level note, design ref)
CLAIMED = {}


def claim(pid, category, technique, text, note, ref):
    CLAIMED[pid] = (category, technique, text, note, ref)


claim("C13", "exploration",
      "runtime contracts on the real converters + exact-value oracle; float16 exhaustive",
      "Every one of the 65536 float16 bit patterns and structured/random float32/float64 values are pushed through the real "
      "float2bin/bin2float, float2fraction/fraction2float, float2mpf/mpf2float, mpf2expansion/expansion2mpf, "
      "mpf2multiword/multiword2mpf while recording contracts compare each intermediate object with the exact value of the float "
      "and each round trip bit for bit. Exhaustive for float16, sampled (all exponents, all subnormal binades) for float32/64.",
      "Trusted: Python float->Fraction exactness, numpy bit views, mpmath's (sign, man, exp) representation.",
      "DESIGN.md section 3 C13")

claim("C14", "exploration",
      "runtime contracts on diff_ulp/ulp + independent lattice-ordinal oracle and algebraic laws; float16 neighbours exhaustive",
      "The real diff_ulp/diff_log2ulp/ulp run under recording contracts: every finite float16 against its k-th neighbours (k up to 64, across zero "
      "and binade edges), ulp() identities on all 65536 float16 patterns, hostile/random pairs and monotone triples in float16/32/64, complex and "
      "array forms (the complex law also in flush mode), a flush-mode consistency law (the package's own collapse map, read off its distance to zero, must explain every flushed "
      "distance), and the module-level flush switch followed at call time.",
      "Trusted: numpy.nextafter and bit views define the lattice; vf.exact ordinals (self-tested).",
      "DESIGN.md section 3 C14")

claim("C15", "exploration",
      "runtime contract on mpf2float with exact-rational RN oracle; backend history over flush/extra-precision settings",
      "Directed multiprecision values (ties +- 2^-k at precisions p+1..4p, the overflow threshold, half the smallest subnormal, arbitrary exponents) are "
      "converted by the real mpf2float under a contract comparing with RN of the exact rational; the contract also fires on the internal call from "
      "vectorize_with_mpmath, which is driven with identity/negate/abs/double/square/sqrt/exp on hostile inputs (35% subnormal) for flush_subnormals in "
      "{unspecified, False, True} x eight extra-precision settings (three fractional) x five call forms (scalar, 1-d array, .call, Fortran-ordered and axes-permuted N-d arrays); "
      "x*x - 1 on inputs whose square fits the requested working precision exactly; exp/log/arctan/arcsinh/sqrt at default settings on every normal float16.",
      "Trusted: mpmath's (sign, man, exp) is exact; mpmath +,-,*,sqrt correctly rounded; sqrt/exp references certified at two precisions (uncertified cases counted, skipped).",
      "DESIGN.md section 3 C15")

claim("C16", "exploration",
      "differential execution of the real polynomial routines over exact Fractions against the direct definition",
      "All evaluation schemes (both copies of fast_polynomial x 5 schemes x reverse, horner, Laurent in all four exponent regimes, ratio form incl. zero ratios), and "
      "multiply/add/derivative/taylorat/divmod are run on random rational polynomials of every degree 0..40 and 499..520 (scheme switch) with zero "
      "patterns; results must equal the definition / coefficient identities exactly (P = Q*D + R, deg R < deg D).",
      "Trusted: Python Fraction arithmetic.",
      "DESIGN.md section 3 C16")

claim("C10", "exploration",
      "runtime contracts on the real EFT functions with exact integer oracle; float16 pairs exhaustive (thorough)",
      "fpa.add_2sum/split_veltkamp/mul_dekker carry recording contracts (so calls from apmath.two_sum/two_prod/split and from mul_dekker into the "
      "splitter are observed too); the utils.* and algorithms.py copies are judged at their own boundary. Oracle: exact sums/products as integers in "
      "units of the smallest subnormal, RN by integer rounding, significand widths by bit counting. Thorough enumerates all 4.03e9 finite float16 "
      "pairs for 2Sum, Fast2Sum and Dekker(scale) (other option sets on a quarter of the blocks) and all finite float16 for the splitter; "
      "float32/float64 use relation generators (ties, exponent gaps p-2..p+2, cancellation, short mantissas, subnormal/overflow edges).",
      "Trusted: IEEE RN-even hardware arithmetic in numpy; vf.exact (self-tested against Fraction). Domain predicates are the documented ones, "
      "computed independently (no overflow in intermediates via magnitude bound, error term representable).",
      "DESIGN.md section 3 C10")

claim("C19", "exploration",
      "runtime contract on real_samples + array laws on the float lattice; product generators vs Cartesian product",
      "A parameter fuzzer (sizes 6..1000 and 1e5/1e6, three dtypes, bounds of same sign / mixed sign / +-0 / subnormal / adjacent, all flags) calls the "
      "real generators; a recording contract on utils.real_samples (also reached through the pair/triple/complex generators) checks dtype, "
      "monotonicity, bounds and requested special values, absence of subnormals/NaN, and ULP-uniform spacing per sign; pair/triple/complex/"
      "complex-pair outputs are compared element for element with the Cartesian product of the 1-D calls.",
      "Trusted: vf.exact ordinals. For unique=False (repeats allowed by design) order is not judged.",
      "DESIGN.md section 3 C19")

claim("C18", "exploration",
      "history monitor: real nested with/decorator uses observed by an independent MXCSR probe; register-algebra oracle; depth<=2 exhaustive",
      "Nested enter/exit histories (inline with, decorator and pre-built context objects created under a different ambient state, sequential re-use, "
      "exceptions raised at any depth and caught at any ancestor) run against the real fpu.context; an independent C probe (_mm_getcsr) reads the register "
      "before/inside/after every level, and float32 arithmetic on bit patterns in C observes FTZ/DAZ/rounding inside and after exit. All 45 argument "
      "combinations and all 2025 ordered pairs x 3 exit kinds are enumerated; random trees to depth 6 beyond that.",
      "Trusted: MXCSR bit layout; the C probe; status flags (bits 0-5) are masked when judging 'only requested bits change' on entry (the body's arithmetic sets "
      "them) but not when judging exact restoration on exit. Re-entering one context object while it is active is refused loudly by the package (AssertionError) and counted as a refusal.",
      "DESIGN.md section 3 C18")

claim("C07", "exploration",
      "runtime contract on Context._register_expression against an independent structural-key model; end-to-end execution of generated code",
      "Every Expr construction (random histories of symbols, constants of every value type incl. 0.0/-0.0/NaN/bool/int/numpy scalars under different "
      "'like' expressions, ~40 operation kinds, lists; with and without the alternative constant context; and tracing + rewriting of all shipped "
      "algorithms) passes through a recording contract that checks soundness (the returned object has the candidate's structural key: operand identities, "
      "exact bit pattern and Python type of constant values) and completeness (a repeated key returns the first object), plus uniqueness of intkeys. One "
      "root per end-to-end history is printed with the Python target, executed and compared bit for bit with an evaluation of the intended DAG. A request-level monitor "
      "(same name / value + differently sized or signed requested type -> different object) covers what a key read off the result cannot see; one context is grown past 2^17 "
      "(thorough 2^21) expressions.",
      "Trusted: CPython object identity and struct/numpy byte views. NaN constants: only soundness is demanded (NaN != NaN). A RuntimeError 'attempt to "
      "re-register equivalent expression' is a loud refusal, counted, not a violation.",
      "DESIGN.md section 3 C07")

claim("C09", "exploration",
      "history monitor across fresh interpreters: sha256 of every generated text vs a canonical table",
      "A canonical digest table of all 274 (target, function, signature[, debug]) generations (python, numpy, stablehlo, xla_client, cpp, lax + the "
      "apmath->lax generations) is produced by a fresh interpreter (PYTHONHASHSEED=0, sorted order); every other history - other/random hash seeds, "
      "reversed/shuffled orders, 2-3 repetitions in one process, pollution prefixes (other targets, alternative context, temporary symbols, warn_once, "
      "failing traces, deep_first=False rewrites, apmath first, expression churn), interleaved pollution - runs in its own subprocess and must reproduce "
      "the table byte for byte; a mismatch is reported with a unified diff of the two texts. User-defined functions (temporary symbols, repeated names, named-constant comparisons, "
      "two same-named provider classes) are among the keys; a second kind of history prints ONE context for two targets in turn (known finding: local names renamed only).",
      "Trusted: sha256. Refused generations (NotImplementedError) are compared as refusals. results/* in the repository are not the reference (generated by older versions).",
      "DESIGN.md section 3 C09")

claim("C03", "exploration",
      "oracle-free identity monitor on one interpreter run of the package's own expansions; special-value lattice exhaustive",
      "The 14 complex graphs (and real asin/asinh/square), expanded by the package's own definitions through the repository's modifier_base, are evaluated "
      "on z, conj z, -z and i*z in one process and compared as bit patterns (NaN=NaN): conjugation symmetry (Im z != 0), oddness (inputs on the function's "
      "own cut excluded), evenness of square, asinh=-i*asin(iz), atan=-i*atanh(iz), acosh=+-i*acos, Im acos=-Im asin. Inputs: random bit patterns, the full "
      "lattice of ~60x60 special values per precision, structured sets (axes, |x|=|y|, unit circle, x=-y^2/2); oddness of the real algorithms also under 7 settings of the "
      "documented tuning parameters.",
      "Trusted: the independent vectorised interpreter vf.graph.interp_np (cross-validated against emitted NumPy source in C05). Relies on NumPy's real "
      "natives being odd/even bitwise. Known finding KF-C03-odd-zero (sign of zero outputs at zero input components).",
      "DESIGN.md section 3 C03")

claim("C02", "exploration",
      "differential monitor: independent interpreter of the expanded real graphs vs float64 libm (tier 1) and a Ziv multiprecision oracle (tier 2); float32 exhaustive",
      "Real absolute/acos/acosh/asin/asinh/square (+ hypot), expanded by the package's own definitions, are evaluated on every non-NaN float32 (thorough; every "
      "2053rd bit pattern + +-4096-ulp neighbourhoods of the switch points in quick) and compared on the float lattice with the correctly rounded value: the "
      "float64 libm value rounded once, re-judged by the mp oracle whenever it lies near a float32 rounding boundary or the distance reaches the target; float64 "
      "and hypot pairs (|x|=|y|, ratios around 2^+-p, specials) are judged by the mp oracle directly; float64 unary functions are in addition swept in bulk (log-uniform "
      "2^-70..2^70, the full exponent range, and t(1 +- 2^-j u) around 14 thresholds for every j < p) with the long double libm as tier 1 and the oracle for every doubtful point; "
      "zero results of absolute / square must have a clear sign bit. NaN domain and limits at 0/inf are part of the same comparison; "
      "the <1e-5 rate claim is an exact count where enumerated and a Chernoff-bounded binomial test (alpha=1e-6) elsewhere.",
      "Trusted: numpy float64 libm within 1 ULP(float64) for tier 1 (all doubtful cases re-judged), mpmath real functions under Ziv's two-precision agreement, vf.graph.interp_np.",
      "DESIGN.md section 3 C02")

claim("C01", "exploration",
      "differential monitor: independent interpreter of the package's own expansions vs a Ziv multiprecision oracle with branch-cut candidate sets; binomial test for the rate claims",
      "The 14 complex graphs x {complex64, complex128}, expanded by the package's own definitions, are evaluated on random bit patterns (W1), mid-range "
      "magnitudes 2^+-12 (W2), a hostile mixture aimed at every threshold/curve the definitions use (W3) and a local error-maximising search from the worst "
      "points (W4); each result is judged per component on the float lattice against the correctly rounded value of an independent multiprecision oracle "
      "(16-ULP bound, spurious NaN / infinity / wrong sign), either side of a cut accepted, limits at infinite inputs by numeric limits. Exceedances of the design "
      "target on W1/W2 feed a one-sided binomial test of rate <= 1e-3 (alpha = 1e-6). Select-arm coverage of every graph is measured and reported; a subsample is "
      "cross-validated bit for bit against the emitted NumPy source.",
      "Trusted: mpmath real primitives under two-precision (Ziv) agreement; oracle formulas in vf/mporacle.py; vf.graph.interp_np. 2^64 / 2^128 inputs are sampled, "
      "not enumerated: 'held on K executions covering these select arms'. Three mechanism-keyed known findings (thin regions at subnormal components).",
      "DESIGN.md section 3 C01")

claim("C04", "exploration",
      "runtime contracts on every rule method of the real Rewriter + whole-program differential evaluation under exact-rational and float interpreters",
      "Typed random expression DAGs (plus pattern-directed templates for rarely matching rules) are rewritten alone and after each target's expansion pass "
      "(python, numpy, stablehlo, xla_client, cpp, own-expansion) with deep_first True/False, and all shipped algorithms are rewritten for every target, "
      "with a recording contract on each rule method: every single rule application (before, after) and every whole program is evaluated on 64 hostile "
      "float assignments (identical booleans / floats up to the sign of zero wherever no node of the original is NaN, overflows, underflows or divides by "
      "zero) and on exact rational assignments (equal where the original is defined); raising and non-termination (step cap, watchdog = inconclusive) are judged too.",
      "Trusted: vf.exprinterp semantics. Constant folding in the node's dtype is read as float evaluation (not a change of meaning); whole programs in which "
      "folding took part are judged by the float clause only. Known finding KF-C04-updown-cancel is factored out of whole-program comparisons by reading "
      "upcast(downcast(x)) as x on both sides when that rule fired.",
      "DESIGN.md section 3 C04")

claim("C12", "exploration",
      "runtime contract on apmath.renormalize (eager, functional, emitted NumPy code) with exact integer sums and an independent overlap predicate",
      "Expansions of length 1..6 in float16/32/64 (documented-precondition inputs: overlapping or not, interior zeros, equal magnitudes, cancellation, "
      "alternating signs, subnormal tails, near-overflow heads; and arbitrarily ordered lists for the sum clause) go through the real renormalize / add / "
      "subtract / multiply / square, eager and functional, fast and safe, with size limits; a recording contract on renormalize (also reached from the "
      "operations built on it) compares exact sums of inputs and outputs, output length and zero placement; two passes must reach decreasing, "
      "non-overlapping order; add/subtract are exact when not truncated; products are within ulp(leading term). The functional variant is also traced, "
      "emitted for the NumPy target and run on arrays; float16 pairs are enumerated in the thorough tier.",
      "Trusted: vf.exact. fast=True is judged on decreasing non-overlapping inputs only (Fast2Sum's own domain). Normal form is judged on inputs satisfying the "
      "documented precondition (decreasing magnitudes), with |b| <= ulp(a) as non-overlap.",
      "DESIGN.md section 3 C12")

claim("C11", "exploration",
      "differential monitor of the real compound operations against exact integer arithmetic rounded once; float16 unary ops exhaustive",
      "next/nextup/nextdown and is_power_of_two are enumerated over every float16 value of their documented domains (and powers of two +-3 ulps in every "
      "binade for float32/64); add_3sum (exactness of (s,e,t) and 1 ULP), add_4sum (1), mul_add (2), dot2 (3) and every emulated-fma variant "
      "(a7/a8/a9/apmath x fix_overflow x possibly_zero_z; apmath_algorithms.fma_real through NumpyContext and apmath.fma traced, emitted for the "
      "NumPy target and run on arrays, with scale on/off) are run on directed tuples - z = -RN(xy) +- k ulp, exact-tie constructions where only the "
      "product's error term decides the rounding, short-mantissa products, binade edges, z = 0, products near overflow/underflow - and compared on the "
      "float lattice with RN of the exact result.",
      "Trusted: vf.exact. Domains are the documented ones; mul_add/dot2 additionally need their Dekker products on the C10 domain (error term representable); "
      "without fix_overflow the documented nan-on-internal-overflow caveat is honoured by judging those variants where no intermediate overflows. Known finding "
      "KF-C11-fma-overflow-fallback (fix_overflow=True drops the product's error term).",
      "DESIGN.md section 3 C11")

claim("C17", "exploration",
      "differential monitor of the real reductions against multiprecision reconstruction; float16 exhaustive, continued-fraction hard cases",
      "argument_reduction_exponent and argument_reduction_trigonometric run through NumpyContext on every finite float16 of their domains and, for "
      "float32/float64, on random bit patterns, +-8-ulp neighbourhoods of k*ln2, (k+1/2)*ln2 and k*pi/2 over the whole reachable k range, "
      "continued-fraction worst cases (floats d*2^e closest to multiples of ln2 / pi/2 in every binade), the pi/4 transition, domain edges and "
      "subnormals, both signs. Oracle at 4*(p + exponent span) bits: k integral / in {0..3}; |r+c| <= 0.55 ln2, |r| <= 1.1 pi/4; k*ln2 + (r+c) within 1 ULP "
      "of x; x - k*pi/2 - (r+t) a multiple of 2*pi within 1 ULP (10 in float16) of the remainder.",
      "Trusted: mpmath pi / ln2 at the working precision. Trig domain |x| <= largest/2^j (j = 2, 5, 18) as in the repository's own test. Two known findings on "
      "the trigonometric reduction (2/pi multiword truncated at the smallest subnormal; ~2^-2p absolute accuracy of the remainder).",
      "DESIGN.md section 3 C17")

claim("C05", "translation_validation",
      "per-program translation validation: emitted Python/NumPy/C++ is loaded, scanned (single assignment, no shared variables) and executed against an independent reference interpreter; ASan/UBSan build of the emitted C++",
      "Programs: every shipped (function, signature) of the three targets (NumPy at debug 0 and 1), a unit program for every entry of each kind_to_target / "
      "constant_to_target table, directed programs for printer idioms (operand parenthesisation, per-operand types, equal constants under different types / zero "
      "signs, non-finite and complex constants, mixed precision, comparisons inside logical operators, ambiguous / constant-like argument names, repeated reference names, list arguments) and random typed graphs; unit, directed and a share of the generated programs are printed both with and without the algebraic rewrite pass. Each emitted text must load (exec; g++ -fsyntax-only and two "
      "shared-object builds), bind every name once before use (ast walk / declaration scan) with no variable shared by distinct sub-expressions, and return "
      "bit-identical results to a scalar reference interpreter over the same primitive library on hostile inputs; the thorough tier rebuilds the C++ batch with "
      "clang++ -fsanitize=address,undefined -fno-sanitize-recover=all and runs every function on the hostile table.",
      "Trusted: vf/refinterp.py semantics (Python math; NumPy scalars; IEEE ops + glibc libm via ctypes, C++ promotion and std::complex-by-scalar rules); g++ 12 "
      "with -ffp-contract=off -fno-builtin. max/min follow the primitive each target prints (builtin max/min, std::max/std::min) in the printed operand order; reference runs that raise are not compared; complex*complex "
      "in C++ (libgcc __mulsc3) is not modelled.",
      "DESIGN.md section 3 C05")

claim("C08", "exploration",
      "runtime monitors: the generated NumPy code's own debug=1 dtype assertions + an independent per-node dtype recorder compared with static inference",
      "Shipped NumPy signatures and generated graphs whose 1-3 symbols draw their dtypes independently from float16/32/64 and complex64/128 (constants of "
      "every value type, 'like' chains, casts, selects, abs/real/imag/complex, min/max/hypot/atan2/copysign) are emitted with debug=1 and run on hostile scalars: "
      "an AssertionError from generated code or a result dtype different from the declared one is the event; in addition an independent scalar interpreter "
      "records the dtype NumPy produces at every node and compares it with get_type() (only root causes are reported), and is_complex must agree with get_type().",
      "Trusted: NumPy 2 promotion rules as run-time truth. Assertions fired in a graph whose per-node comparison already found a mismatch are attributed to it. "
      "Known finding KF-C08-python-max-min.",
      "DESIGN.md section 3 C08")

claim("C06", "translation_validation",
      "emitted .td / .cc text parsed back by independent recursive-descent parsers and walked in lock-step with the graph",
      "Every shipped (function, signature) of the stablehlo and xla_client targets (xla_client under the alternative constant context), a unit program per "
      "declared kind (both operand orders for binary kinds) and named constant, directed programs (shared sub-expressions, shared constants, signed zero, "
      "complex-typed constants) and random graphs are emitted - with and without clang-format on PATH for the C++ text - and parsed back; the walker checks, "
      "node by node, the operator against a table written from the StableHLO/CHLO dialect and the xla:: builder API, arity and operand order, comparison "
      "direction, named constants, exact numeric value (sign of zero included), the element class of the operand a constant is attached to, and that every "
      "name is bound exactly once before it is referenced in the order the consumer reads the text; compile-time constant sub-expressions of the XLA "
      "client text are evaluated for float32 and float64 and compared with the value the alternative-context expression denotes.",
      "Trusted: vf/parsers.py and the operator tables in vf/props/c06.py. The texts cannot be executed here: isomorphism of the rendering, not downstream "
      "semantics. Constants that differ only in their like expression (same value, same type) may share one name. Two known findings for boolean / "
      "implicit-like constants under the alternative context.",
      "DESIGN.md section 3 C06")

SOURCE_COMMITS = []


def main():
    checks = []
    for pid in ALL:
        if pid not in CLAIMED:
            continue
        cat, tech, text, note, ref = CLAIMED[pid]
        checks.append(dict(
            property_id=pid,
            quick_cmd=f"./check {pid} --tier quick",
            thorough_cmd=f"./check {pid} --tier thorough",
            evidence_file=f"evidence/{pid}.json",
            replay_cmd_template=f"./check {pid} --replay {{path}}",
            engine="vf (runtime monitors)",
            level_claimed=dict(category=cat, text=text, design_ref=ref),
            level_note=note,
            technique=tech,
        ))
    na = [dict(property_id=p, reason="not claimed yet: the runtime monitor for this property is still under construction (see DESIGN.md section 3)")
          for p in ALL if p not in CLAIMED]
    m = dict(
        version=1,
        setup_cmd="./vf/bootstrap.sh",
        hooks=dict(
            guard="FA_VERIF",
            enable="no source hooks: monitors are attached from the harness to module/class attributes of /repo's working tree "
                   "(PYTHONPATH=/repo, FA_VERIF=1 set by ./check)",
            baseline_off_cmd="cd /repo && env -u FA_VERIF /venv/bin/python -m pytest -ra -q -p no:cacheprovider --timeout=900 --continue-on-collection-errors",
            source_commits=SOURCE_COMMITS,
            add_only=True,
        ),
        engines=[
            dict(name="vf", path="vf/", serves_properties=sorted(CLAIMED), kind_free_text="runtime monitoring: recording contracts on the real functions, "
                 "reference-model oracles (exact lattice arithmetic, Ziv multiprecision oracle, independent graph interpreters and parsers), "
                 "history monitors, sanitizer builds of emitted C++; sharded subprocess runner with three-valued verdicts"),
        ],
        checks=checks,
        not_applicable=na,
        notes="Verdict lines: 'VIOLATION property=<id> replay=<path>' + exit 1; 'KNOWN-FINDING: property=<id> ...' + exit 0 for findings listed in "
              "known_findings.json; exit 2 + 'INCONCLUSIVE ...' when the monitors could not observe. All checks honour VERIF_SEED.",
    )
    with open(os.path.join(ROOT, "MANIFEST.json"), "w") as f:
        json.dump(m, f, indent=1)
    # validate
    try:
        import jsonschema  # noqa
        schema = json.load(open("/root/.vp/MANIFEST.schema.json"))
        jsonschema.validate(m, schema)
        print("MANIFEST.json valid;", len(checks), "claimed,", len(na), "not claimed")
    except ImportError:
        print("jsonschema missing; written without validation")


if __name__ == "__main__":
    main()
