#!/bin/bash
# tools/confirm_seed.sh <Cxx> <k> [notests]
# Confirms a sub-agent's seeded change in a scratch worktree of /repo's HEAD (never in /repo itself):
#   the patch applies, its demonstration exits 0 without it and non-zero with it, and the unedited test suite gives the baseline result.
# Stores patch, demonstration, notes and the confirmation log in /verif/seeded/<Cxx>-<k>/ ; removes the worktree.
set -u
P="$1"; K="$2"; NOTESTS="${3:-}"
R="${ROUND:-}"   # ROUND=r2 takes the second-round outputs (/tmp/seed/r2-out-Cxx) and stores them as seeded/Cxx-r2-k
SRC=/tmp/seed/${R:+$R-}out-$P
WT=/var/tmp/seedwt-$P-${R:+$R-}$K
DST=/verif/seeded/$P-${R:+$R-}$K
mkdir -p "$DST"
LOG="$DST/confirm.log"
: > "$LOG"
git -C /repo worktree remove --force "$WT" >/dev/null 2>&1; rm -rf "$WT"
git -C /repo worktree add --detach "$WT" "${BASE:-HEAD}" >/dev/null 2>&1 || { echo "worktree failed" | tee -a "$LOG"; exit 3; }
echo "base=$(git -C "$WT" rev-parse --short HEAD)" >> "$LOG"
cd "$WT"
export PYTHONPATH="$WT" PYTHONHASHSEED=0 PATH=/venv/bin:$PATH
timeout 1800 /venv/bin/python "$SRC/demo$K.py" > "$DST/demo-clean.out" 2>&1; echo "demo_without_patch_exit=$?" >> "$LOG"
if git apply --check "$SRC/patch$K.diff" 2>>"$LOG"; then echo "applies=yes" >> "$LOG"; git apply "$SRC/patch$K.diff"; else echo "applies=no" >> "$LOG"; fi
timeout 1800 /venv/bin/python "$SRC/demo$K.py" > "$DST/demo-patched.out" 2>&1; echo "demo_with_patch_exit=$?" >> "$LOG"
if [ -z "$NOTESTS" ]; then
  env -u FA_VERIF timeout 3000 /venv/bin/python -m pytest -q -p no:cacheprovider --timeout=900 -n 8 2>&1 | grep -E "^(FAILED|ERROR) |[0-9]+ passed" | tail -8 >> "$LOG"
  # test_fma_samples_fraction[float32] is order dependent on the unchanged tree (test_multiply_dekker leaks mpmath.mp.prec): rerun it alone
  if grep -q "^FAILED" "$LOG"; then
    for t in $(grep "^FAILED" "$LOG" | awk '{print $2}'); do
      env -u FA_VERIF timeout 900 /venv/bin/python -m pytest -q -p no:cacheprovider "$t" 2>&1 | tail -1 | sed "s|^|rerun_alone $t: |" >> "$LOG"
    done
  fi
fi
cp "$SRC/patch$K.diff" "$DST/patch.diff"; cp "$SRC/demo$K.py" "$DST/demo.py"; [ -f "$SRC/notes$K.md" ] && cp "$SRC/notes$K.md" "$DST/notes.md"
for f in demo-clean.out demo-patched.out; do tail -c 3000 "$DST/$f" > "$DST/$f.t" && mv "$DST/$f.t" "$DST/$f"; done
cd /; git -C /repo worktree remove --force "$WT" >/dev/null 2>&1; rm -rf "$WT"
cat "$LOG"
