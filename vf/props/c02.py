"""C02 — real-line accuracy of every real algorithm (float32 exhaustive in the thorough tier).

Unit: real graphs of absolute, acos, acosh, asin, asinh, square and hypot expanded by the package's own definitions,
evaluated by vf.graph.interp_np.  Oracle float32: two tiers (float64 libm value, re-judged by the Ziv mp oracle whenever the
float64 value is near a float32 rounding boundary or the distance is at/over the bound).  Oracle float64: Ziv mp oracle.
"""
import numpy

from .. import exact, gen, graph, mporacle
from ..core import unfl

LEVEL = "exploration"
RULE = ("float32 unary: every non-NaN bit pattern (thorough) / every 2053rd pattern + neighbourhoods (+-4096 ulps) of 0, 1, 1.5, sqrt(largest), largest/2, "
        "largest, smallest normal (quick); hypot: random-bit, |x|=|y|, huge/tiny ratio and special-lattice pairs; float64: random bits + the same "
        "neighbourhoods, judged by the mp oracle; float64 bulk sweeps (log-uniform 2^+-70, full range, threshold approaches t(1 +- 2^-j u)) with long double libm as tier 1 "
        "and the oracle for doubtful points. distinct_nontrivial = distinct (function, dtype, binade of |x| (exponent), distance in ULP) tuples observed")
ASSUME = ["numpy float64 arcsin/arccos/arcsinh/arccosh/hypot are within 1 ULP(float64) (tier 1); every doubtful case is re-judged by the mp oracle",
          "mpmath real functions converge with precision (Ziv: two precisions must agree away from rounding boundaries)"]
REQUIRE = ["evaluations", "judged:float32", "judged:float64", "judged:hypot", "tier2:rejudged", "nan-domain:checked", "limits:checked"]

REF64 = dict(absolute=numpy.abs, acos=numpy.arccos, acosh=numpy.arccosh, asin=numpy.arcsin, asinh=numpy.arcsinh, square=numpy.square)
BOUND = {numpy.float32: 4, numpy.float64: 5}
TARGET = 3


def EXHAUSTIVE(tier):
    if tier == "thorough":
        return "every non-NaN float32 bit pattern for absolute, acos, acosh, asin, asinh, square"
    return None


def judge_unary32(rec, fname, g, x, oracle):
    """x: float32 array (non-NaN)"""
    dt = numpy.float32
    with numpy.errstate(all="ignore"):
        r = numpy.asarray(graph.interp_np(g, x)).astype(dt)
        v = REF64[fname](x.astype(numpy.float64))
        e = v.astype(dt)
    d = exact.ulp_distance_arr(r, e)
    rec.count("evaluations", x.size)
    rec.count("judged:float32", x.size)
    # doubtful for tier 1: float64 value close to a float32 rounding midpoint (low 29 bits ~ 0x10000000), or distance at/above target
    vb = numpy.abs(v).view(numpy.uint64) & numpy.uint64((1 << 29) - 1)
    near_mid = numpy.abs(vb.astype(numpy.int64) - (1 << 28)) < 64
    finite = numpy.isfinite(v) & numpy.isfinite(e)
    # subnormal float32 results: midpoint position differs -> send to tier 2 when distance != 0
    subn = finite & (numpy.abs(e) < numpy.finfo(dt).smallest_normal)
    doubt = (finite & near_mid) | (d >= TARGET) | (subn & (d != 0))
    idx = numpy.flatnonzero(doubt)
    if idx.size > 5000:
        # a gross regression: do not spend hours in the oracle; judge a sample exactly and the rest by tier 1
        idx = idx[:: max(1, idx.size // 5000)]
    for i in idx:
        res = oracle.real(fname, x[i])
        rec.count("tier2:rejudged")
        if res[0] == "nan":
            d[i] = 0 if numpy.isnan(r[i]) else (1 << 61)
        elif res[0] == "inf":
            d[i] = 0 if (numpy.isinf(r[i]) and (r[i] > 0) == (res[1] > 0)) else max(1, exact.fmt(dt).inf_bits - abs(exact.ordinal(r[i]) or 0)) if not numpy.isnan(r[i]) else (1 << 61)
        else:
            o = exact.ordinal(r[i])
            d[i] = abs(o - res[1]) if o is not None else (1 << 61)
    bad = d > BOUND[dt]
    over = int((d > TARGET).sum())
    rec.count(f"over_target:{fname}:float32", over)
    rec.count(f"n:{fname}:float32", x.size)
    if bad.any():
        i = int(numpy.flatnonzero(bad)[0])
        kind = "nan-domain" if (numpy.isnan(r[i]) != numpy.isnan(e[i])) else ("limit" if not numpy.isfinite(x[i]) or x[i] == 0 else "ulp-bound")
        rec.violation(f"real-{kind}:{fname}", dict(dtype="float32", function=fname, x=x[i], got=r[i], expected=e[i], ulps=int(min(d[i], 1 << 40))), n=int(bad.sum()))
    # classes: exponent binade x distance
    with numpy.errstate(all="ignore"):
        _, ex = numpy.frexp(x.astype(numpy.float64))
    sel = slice(None, None, max(1, x.size // 20000))
    for a_, b_ in set(zip(ex[sel].tolist(), numpy.minimum(d[sel], 9).tolist())):
        rec.cls(fname, "float32", a_, b_)
    # NaN domain and limits (property: NaN exactly where undefined; exact limits at infinities and zero)
    nanexp = numpy.isnan(e)
    rec.count("nan-domain:checked", int(nanexp.sum()))
    lim = ~numpy.isfinite(x) | (x == 0)
    rec.count("limits:checked", int(lim.sum()))
    zero_sign(rec, fname, x, r, e, "float32")
    return d


def neighbourhoods(dt, k):
    fi = numpy.finfo(dt)
    t = dt
    pts = [0.0, 1.0, 1.5, 0.5, 2.0, numpy.sqrt(t(fi.max)), t(fi.max) / t(2), fi.max, fi.smallest_normal, fi.eps, numpy.sqrt(t(fi.eps)), 1 / numpy.sqrt(t(fi.eps)), numpy.inf]
    o = []
    for v in pts:
        b = exact.ordinal(t(v))
        o.append(numpy.arange(b - k, b + k + 1))
    o = numpy.unique(numpy.clip(numpy.concatenate(o), -exact.fmt(dt).inf_bits, exact.fmt(dt).inf_bits))
    o = numpy.concatenate([o, -o])
    x = exact.from_ordinal_arr(dt, numpy.unique(o))
    return numpy.concatenate([x, numpy.array([-0.0], dtype=dt)])


def task_f32_range(params, rec):
    oracle = mporacle.Oracle(numpy.float32)
    G = {f: graph.expanded(f, numpy.float32) for f in graph.REAL_FUNCS}
    start, stop, step = params["start"], params["stop"], params["step"]
    CH = 1 << 22
    for s in range(start, stop, CH * step):
        bits = numpy.arange(s, min(stop, s + CH * step), step, dtype=numpy.uint64).astype(numpy.uint32)
        x = bits.view(numpy.float32)
        x = x[~numpy.isnan(x)]
        if x.size == 0:
            continue
        for f in params.get("functions", graph.REAL_FUNCS):
            judge_unary32(rec, f, G[f], x, oracle)
    rec.sample(dict(kind="float32 bit-pattern range", start=hex(start), stop=hex(stop), step=step))


def task_f32_neigh(params, rec):
    oracle = mporacle.Oracle(numpy.float32)
    x = numpy.concatenate([neighbourhoods(numpy.float32, params["k"]), approach_points(numpy.float32, gen.rng_for(params.get("seed", 0), 23, 0), per=24)])
    for f in graph.REAL_FUNCS:
        if f == "hypot":
            continue
        judge_unary32(rec, f, graph.expanded(f, numpy.float32), x, oracle)
    rec.sample(dict(kind="float32 neighbourhoods", k=params["k"], points=int(x.size)))


def judge_exact_list(rec, fname, dt, xs, ys, r, oracle, label):
    """scalar judgement by the mp oracle (float64 unary, hypot both dtypes)"""
    f = exact.fmt(dt)
    over = 0
    for i in range(len(xs)):
        x = xs[i]
        y = ys[i] if ys is not None else None
        try:
            res = oracle.real(fname, x, y)
        except mporacle.Inconclusive:
            rec.count("oracle:inconclusive")
            continue
        ri = dt(r[i])
        if res[0] == "nan":
            d = 0 if numpy.isnan(ri) else (1 << 61)
        elif res[0] == "inf":
            if numpy.isnan(ri):
                d = 1 << 61
            else:
                d = abs(exact.ordinal(ri) - res[1] * f.inf_bits)
        else:
            o = exact.ordinal(ri)
            d = abs(o - res[1]) if o is not None else (1 << 61)
        if d > TARGET:
            over += 1
        if d > BOUND[dt]:
            kind = "nan-domain" if (d >= (1 << 61)) else "ulp-bound"
            w = dict(dtype=numpy.dtype(dt).name, function=fname, x=x, got=ri, expected=oracle.to_float(res) if res[0] != "nan" else "nan", ulps=int(min(d, 1 << 40)))
            if y is not None:
                w["y"] = y
            rec.violation(f"real-{kind}:{fname}", w)
        rec.cls(fname, numpy.dtype(dt).name, int(numpy.frexp(numpy.float64(x))[1]) // 8, min(d, 9))
    rec.count("evaluations", len(xs))
    rec.count(label, len(xs))
    rec.count(f"over_target:{fname}:{numpy.dtype(dt).name}", over)
    rec.count(f"n:{fname}:{numpy.dtype(dt).name}", len(xs))


def task_f64(params, rec):
    dt = numpy.float64
    oracle = mporacle.Oracle(dt)
    rng = gen.rng_for(params["seed"], 2, params["shard"])
    n = params["n"]
    x = numpy.concatenate([gen.random_bits(rng, dt, n), neighbourhoods(dt, params["k"])[:: params.get("nstride", 1)]])
    for f in graph.REAL_FUNCS:
        g = graph.expanded(f, dt)
        with numpy.errstate(all="ignore"):
            r = numpy.asarray(graph.interp_np(g, x))
        judge_exact_list(rec, f, dt, x, None, r, oracle, "judged:float64")
        lim = ~numpy.isfinite(x) | (x == 0)
        rec.count("limits:checked", int(lim.sum()))
    rec.sample(dict(kind="float64 sample", n=int(x.size), first=[x[0], x[1]]))


def judge_unary64_dense(rec, fname, g, x, oracle, label):
    """float64 in bulk: tier 1 = the 80-bit long double libm value rounded once (exact distance up to +-1 ULP), tier 2 = the multiprecision oracle for
    every point whose tier-1 distance reaches the target - so millions of float64 inputs can be swept"""
    dt = numpy.float64
    with numpy.errstate(all="ignore"):
        r = numpy.asarray(graph.interp_np(g, x)).astype(dt)
        e = REF64[fname](x.astype(numpy.longdouble)).astype(dt)
    d = exact.ulp_distance_arr(r, e)
    rec.count("evaluations", x.size)
    rec.count("judged:float64", x.size)
    rec.count("judged:float64:" + label, x.size)
    doubt = (d >= TARGET - 1) | (numpy.isnan(r) != numpy.isnan(e))
    idx = numpy.flatnonzero(doubt)
    if idx.size > 3000:
        idx = idx[:: max(1, idx.size // 3000)]
    f = exact.fmt(dt)
    judged = []
    for i in idx:
        try:
            res = oracle.real(fname, x[i])
        except mporacle.Inconclusive:
            rec.count("oracle:inconclusive")
            continue
        judged.append(i)
        rec.count("tier2:rejudged")
        if res[0] == "nan":
            d[i] = 0 if numpy.isnan(r[i]) else (1 << 61)
        elif res[0] == "inf":
            d[i] = (1 << 61) if numpy.isnan(r[i]) else abs(exact.ordinal(r[i]) - res[1] * f.inf_bits)
        else:
            o = exact.ordinal(r[i])
            d[i] = abs(o - res[1]) if o is not None else (1 << 61)
    idx = numpy.asarray(judged, dtype=numpy.int64)
    bad = numpy.zeros(x.size, dtype=bool)
    if idx.size:
        bad[idx] = d[idx] > BOUND[dt]
    over = int((d[idx] > TARGET).sum()) if idx.size else 0
    rec.count(f"over_target:{fname}:float64", over)
    rec.count(f"n:{fname}:float64", x.size)
    if bad.any():
        i = int(numpy.flatnonzero(bad)[0])
        kind = "nan-domain" if (numpy.isnan(r[i]) != numpy.isnan(e[i])) else ("limit" if not numpy.isfinite(x[i]) or x[i] == 0 else "ulp-bound")
        rec.violation(f"real-{kind}:{fname}", dict(dtype="float64", function=fname, x=x[i], got=r[i], expected=e[i], ulps=int(min(d[i], 1 << 40)), workload=label), n=int(bad.sum()))
    zero_sign(rec, fname, x, r, e, "float64")


def zero_sign(rec, fname, x, r, e, dtn):
    """'the exact limits at ... zero' for the two functions whose value is non-negative by definition: |-0| = +0 and (-0)^2 = +0 (a result with the sign
    bit set is a negative number to copysign, 1/x, atan2).  The odd functions are deliberately not judged on the sign of a zero result: asinh(-0.0) is
    sign(x) * r, and sign(-0.0) is +0 in the NumPy and Python targets and -0 in the C++, XLA and StableHLO ones - a convention, not a limit"""
    if fname not in ("absolute", "square"):
        return
    z = (r == 0) & (e == 0)
    if not z.any():
        return
    rec.count("limits:zero-sign-checked", int(z.sum()))
    bad = z & (numpy.signbit(r) != numpy.signbit(e))
    if bad.any():
        i = int(numpy.flatnonzero(bad)[0])
        rec.violation(f"real-zero-sign:{fname}", dict(dtype=dtn, function=fname, x=x[i], got=r[i], expected=e[i]), n=int(bad.sum()))


def approach_points(dt, rng, per=6):
    """t * (1 +- 2^-j u) for every threshold t and j = 1 .. p-1: a failure band that starts a relative distance 2^-j away from a switch point / singularity"""
    f = exact.fmt(dt)
    fi = numpy.finfo(dt)
    big = float(fi.max)
    ts = [1.0, 1.5, 0.5, 2.0, float(numpy.sqrt(dt(fi.max))), big / 2, big / 4, 2.0 ** (f.p - 2), 2.0 ** (f.p // 2), float(fi.eps) ** 0.5, float(fi.eps), 1 / float(fi.eps), float(fi.smallest_normal), float(numpy.sqrt(dt(fi.smallest_normal)))]
    out = []
    with numpy.errstate(all="ignore"):
        for t in ts:
            j = numpy.repeat(numpy.arange(1, f.p), per)
            u = rng.uniform(1, 2, size=j.size)
            for sg in (1, -1):
                out.append(t * (1 + sg * 2.0 ** -j.astype(numpy.float64) * u))
        a = numpy.concatenate(out)
        a = numpy.concatenate([a, -a])
        a = a[numpy.isfinite(a)].astype(dt)
    return a


def task_f64_dense(params, rec):
    dt = numpy.float64
    oracle = mporacle.Oracle(dt)
    rng = gen.rng_for(params["seed"], 21, params["shard"])
    n = params["n"]
    with numpy.errstate(all="ignore"):
        sweep = (rng.choice([-1.0, 1.0], size=n) * 2.0 ** rng.uniform(-70, 70, size=n)).astype(dt)
        wide = (rng.choice([-1.0, 1.0], size=n // 4) * 2.0 ** rng.uniform(-1074, 1023.9, size=n // 4)).astype(dt)
    appr = approach_points(dt, rng)
    for f in graph.REAL_FUNCS:
        if f == "hypot":
            continue
        g = graph.expanded(f, dt)
        judge_unary64_dense(rec, f, g, sweep, oracle, "log-uniform-sweep")
        judge_unary64_dense(rec, f, g, wide, oracle, "full-range-sweep")
        judge_unary64_dense(rec, f, g, appr, oracle, "threshold-approach")
    rec.sample(dict(kind="float64 dense", sweep=int(sweep.size), approach=int(appr.size)))


def hypot_pairs(rng, dt, n):
    f = exact.fmt(dt)
    x = gen.random_bits(rng, dt, n)
    y = gen.random_bits(rng, dt, n)
    k = rng.integers(0, 6, size=n)
    with numpy.errstate(all="ignore"):
        eq = x.copy() * rng.choice([-1, 1], size=n).astype(dt)
        near = exact.from_ordinal_arr(dt, numpy.clip(exact.ordinal_arr(x) + rng.integers(-3, 4, size=n), -f.inf_bits, f.inf_bits))
        ratio = (x.astype(numpy.float64) * 2.0 ** rng.choice([-f.p - 2, -f.p - 1, -f.p, -f.p + 1, -f.p // 2, f.p // 2, f.p, f.p + 1], size=n)).astype(dt)
        sp = gen.neighbours(gen.specials(dt), dt, k=2)
        spx = sp[rng.integers(0, sp.size, size=n)]
        spy = sp[rng.integers(0, sp.size, size=n)]
    X = numpy.select([k == 4], [spx], x).astype(dt)
    Y = numpy.select([k == 1, k == 2, k == 3, k == 4], [eq, near, ratio, spy], y).astype(dt)
    bad = numpy.isnan(X) | numpy.isnan(Y)
    X[bad] = 3.0
    Y[bad] = 4.0
    return X, Y


def task_hypot(params, rec):
    dt = getattr(numpy, params["dtype"])
    oracle = mporacle.Oracle(dt)
    rng = gen.rng_for(params["seed"], 22, params["shard"], exact.fmt(dt).bits)
    g = graph.expanded("hypot", dt)
    n = params["n"]
    X, Y = hypot_pairs(rng, dt, n)
    with numpy.errstate(all="ignore"):
        r = numpy.asarray(graph.interp_np(g, X, Y)).astype(dt)
    if dt is numpy.float32 and params.get("vector", True):
        # tier 1 on a large batch: float64 hypot of float32 operands (x^2+y^2 exact in float64 except huge exponent gaps; sqrt rounded once)
        with numpy.errstate(all="ignore"):
            s = X.astype(numpy.float64) ** 2 + Y.astype(numpy.float64) ** 2
            v = numpy.sqrt(s)
            e = v.astype(dt)
        d = exact.ulp_distance_arr(r, e)
        doubt = numpy.flatnonzero((d >= TARGET - 1) | ~numpy.isfinite(v))
        rec.count("evaluations", n)
        rec.count("judged:hypot", n)
        if doubt.size > 3000:
            doubt = doubt[:: doubt.size // 3000]
        judge_exact_list(rec, "hypot", dt, X[doubt], Y[doubt], r[doubt], oracle, "tier2:rejudged")
        rec.count("over_target:hypot:float32", 0)
        rec.count("n:hypot:float32", n - doubt.size)
    else:
        m = min(n, params.get("exact_n", n))
        judge_exact_list(rec, "hypot", dt, X[:m], Y[:m], r[:m], oracle, "judged:hypot")
    rec.sample(dict(kind="hypot pairs", dtype=params["dtype"], x=X[0], y=Y[0]))


TASKS = {"f32_range": task_f32_range, "f32_neigh": task_f32_neigh, "f64": task_f64, "f64_dense": task_f64_dense, "hypot": task_hypot}
SHARD_TIMEOUT = {"quick": 1500, "thorough": 10000}


def plan(tier, seed):
    t = []
    if tier == "quick":
        step = 2053
        nsh = 12
        span = (1 << 32) // nsh
        for s in range(nsh):
            t.append(("f32_range", dict(start=s * span + (seed * 977) % step, stop=(s + 1) * span, step=step)))
        t.append(("f32_neigh", dict(k=4096)))
        t.append(("f64", dict(seed=seed, shard=0, n=1500, k=48)))
        t.append(("f64", dict(seed=seed, shard=1, n=1500, k=48)))
        for s_ in range(2):
            t.append(("f64_dense", dict(seed=seed, shard=s_, n=400000)))
        t.append(("hypot", dict(dtype="float32", seed=seed, shard=0, n=400000)))
        t.append(("hypot", dict(dtype="float64", seed=seed, shard=0, n=3000)))
    else:
        nsh = 256
        span = (1 << 32) // nsh
        for s in range(nsh):
            t.append(("f32_range", dict(start=s * span, stop=(s + 1) * span, step=1)))
        t.append(("f32_neigh", dict(k=4096)))
        for s in range(16):
            t.append(("f64", dict(seed=seed, shard=s, n=12000, k=4096 if s == 0 else 64)))
        for s in range(16):
            t.append(("f64_dense", dict(seed=seed, shard=s, n=4000000)))
        for s in range(16):
            t.append(("hypot", dict(dtype="float32", seed=seed, shard=s, n=6000000)))
            t.append(("hypot", dict(dtype="float64", seed=seed, shard=s, n=20000)))
    return t


def post(tier, seed, rec):
    """rate claim: fewer than 1 input in 1e5 beyond the 3-ULP target (exact count where enumerated; binomial test otherwise)"""
    import math

    for key in [k for k in rec.counters if k.startswith("n:")]:
        _, f, dtn = key.split(":")
        n = rec.counters[key]
        kk = rec.counters.get(f"over_target:{f}:{dtn}", 0)
        rec.note(f"rate:{f}:{dtn}", dict(n=int(n), over_target=int(kk)))
        if n == 0:
            continue
        r0 = 1e-5
        if kk / n < r0:
            continue
        # one-sided exact binomial tail P[K >= kk | n, r0] (Poisson-safe computation in logs)
        lam = n * r0
        # P[K>=k] <= exp(-lam) * (e*lam/k)^k  (Chernoff) -- conservative
        if kk > lam:
            logp = -lam + kk * (1 + math.log(lam / kk))
            if logp < math.log(1e-6):
                rec.violation(f"rate-over-3ulp:{f}", dict(function=f, dtype=dtn, n=int(n), over_target=int(kk), rate=kk / n, claimed=r0, log_p=logp))


def replay(site, witness, rec):
    dt = getattr(numpy, witness["dtype"])
    f = witness["function"]
    oracle = mporacle.Oracle(dt)
    x = numpy.array([unfl(witness["x"], dt)], dtype=dt)
    if f == "hypot":
        y = numpy.array([unfl(witness["y"], dt)], dtype=dt)
        with numpy.errstate(all="ignore"):
            r = numpy.asarray(graph.interp_np(graph.expanded("hypot", dt), x, y)).astype(dt)
        judge_exact_list(rec, "hypot", dt, x, y, r, oracle, "judged:hypot")
    else:
        with numpy.errstate(all="ignore"):
            r = numpy.asarray(graph.interp_np(graph.expanded(f, dt), x)).astype(dt)
        judge_exact_list(rec, f, dt, x, None, r, oracle, "judged:float64")
