"""C03 — symmetries and cross-function identities hold bit for bit (oracle-free monitor).

Both sides of each identity come from one interpreter run of the package's own expansions (vf.graph.expanded + interp_np).
"""
import numpy

from .. import exact, gen, graph
from ..core import unfl

LEVEL = "exploration"
RULE = ("inputs: uniformly random bit patterns, the full special-value lattice (all pairs of ~70 class representatives: +-0, subnormals, thresholds +-ulp, "
        "1+-ulp, huge, +-inf), structured sets (axes, |x|=|y|, unit circle, tiny/huge mixes). Identities: conj (14 functions, Im z != 0), odd (asin, asinh, "
        "atan, atanh complex; asin, asinh real), even (square), asinh=-i asin(iz), atan=-i atanh(iz), acosh=+-i acos, Im acos=-Im asin; compared as bit "
        "patterns (NaN=NaN). distinct_nontrivial = distinct (identity, function, dtype, input class pair) tuples evaluated, input class = (class of re, class of im)")
ASSUME = ["numpy's real atan2/log1p/log/sqrt/sin/cos are themselves odd/even bitwise where the identities rely on it (a native asymmetry would surface as a violation with the witness)"]
REQUIRE = ["evaluations", "identity:conj", "identity:odd", "identity:odd:parameterised", "identity:even", "identity:rot-asinh", "identity:rot-atan", "identity:rot-acosh", "identity:imag-acos-asin", "lattice:points"]

ODD = ["asin", "asinh", "atan", "atanh"]


def EXHAUSTIVE(tier):
    return "the special-value lattice (all ordered pairs of the class representatives) for every identity, both precisions"


def biteq(a, b):
    """bit equality with NaN matching NaN; works for real and complex arrays; returns per-element bool"""
    a = numpy.ascontiguousarray(a)
    b = numpy.ascontiguousarray(b)
    if a.dtype.kind == "c":
        fa_ = a.view(a.real.dtype)
        fb_ = b.view(b.real.dtype)
    else:
        fa_, fb_ = a, b
    it = exact.INT[fa_.dtype]
    same = (fa_.view(it) == fb_.view(it)) | (numpy.isnan(fa_) & numpy.isnan(fb_))
    if a.dtype.kind == "c":
        return same.reshape(-1, 2).all(axis=1)
    return same


def conj(z):
    r = z.copy()
    r.imag = -z.imag
    return r


def neg(z):
    if z.dtype.kind != "c":
        return -z
    r = z.copy()
    r.real = -z.real
    r.imag = -z.imag
    return r


def muli(z):  # i*z = (-y, x), exact
    r = z.copy()
    r.real = -z.imag
    r.imag = z.real
    return r


def mulmi(z):  # -i*z = (y, -x), exact
    r = z.copy()
    r.real = z.imag
    r.imag = -z.real
    return r


def canon_zero(w):
    """map -0 -> +0 componentwise"""
    w = w.copy()
    if w.dtype.kind == "c":
        w.real = numpy.where(w.real == 0, 0.0, w.real)
        w.imag = numpy.where(w.imag == 0, 0.0, w.imag)
        return w
    return numpy.where(w == 0, 0.0, w).astype(w.dtype)


def vclass(a):
    """coarse class of each component value (for distinct counting)"""
    f = exact.fmt(a.dtype)
    o = numpy.abs(exact.ordinal_arr(numpy.where(numpy.isnan(a), 0, a)))
    one = int(exact.ordinal(f.type(1)))
    c = numpy.full(a.shape, 3, dtype=numpy.int8)  # mid
    c[o == 0] = 0
    c[(o > 0) & (o < (1 << (f.p - 1)))] = 1  # subnormal
    c[(o >= (1 << (f.p - 1))) & (o < one // 2)] = 2  # tiny
    c[numpy.abs(o - one) <= 4] = 4  # ~1
    c[o > one + (one // 2)] = 5  # huge
    c[o >= f.inf_bits] = 6
    return c * numpy.where(numpy.signbit(a), -1, 1).astype(numpy.int8) + numpy.where(numpy.signbit(a) & (c == 0), -7, 0).astype(numpy.int8)


def on_cut(f, z):
    x, y = z.real, z.imag
    if f == "asin":
        return (y == 0) & (numpy.abs(x) > 1)
    if f == "asinh":
        return (x == 0) & (numpy.abs(y) > 1)
    if f == "atanh":
        return (y == 0) & (numpy.abs(x) >= 1)
    if f == "atan":
        return (x == 0) & (numpy.abs(y) >= 1)
    return numpy.zeros(z.shape, dtype=bool)


class Checker:
    def __init__(self, rec, cdt):
        self.rec = rec
        self.cdt = numpy.dtype(cdt).type
        self.fdt = {numpy.complex64: numpy.float32, numpy.complex128: numpy.float64}[self.cdt]
        self.G = {f: graph.expanded(f, self.cdt) for f in graph.COMPLEX_FUNCS}
        self.GR = {f: graph.expanded(f, self.fdt) for f in ("asin", "asinh", "square")}

    def report(self, ident, f, z, lhs, rhs, mask_bad, extra_site=""):
        if not mask_bad.any():
            return
        i = int(numpy.flatnonzero(mask_bad)[0])
        zi = z[i]
        self.rec.violation(f"{ident}:{f}{extra_site}", dict(dtype=numpy.dtype(z.dtype).name, identity=ident, function=f, z=zi, lhs=lhs[i], rhs=rhs[i],
                                                           zero_component=bool((zi.real == 0) or (zi.imag == 0)) if z.dtype.kind == "c" else bool(zi == 0)), n=int(mask_bad.sum()))

    def classes(self, ident, f, z):
        if z.dtype.kind == "c":
            cr, ci = vclass(numpy.ascontiguousarray(z.real)), vclass(numpy.ascontiguousarray(z.imag))
            pairs = set(zip(cr[:20000].tolist(), ci[:20000].tolist()))
        else:
            pairs = set((c,) for c in vclass(z)[:20000].tolist())
        for p in pairs:
            self.rec.cls(ident, f, numpy.dtype(z.dtype).name, p)

    def run(self, z, label):
        rec = self.rec
        ev = lambda f, w: graph.interp_np(self.G[f], w)  # noqa
        F = {f: ev(f, z) for f in graph.COMPLEX_FUNCS}
        n = z.size
        nz = z.imag != 0
        # (a) conjugation
        zc = conj(z)
        for f in graph.COMPLEX_FUNCS:
            r = ev(f, zc)
            if f == "absolute":
                ok = biteq(r, F[f])
                rhs = F[f]
            else:
                rhs = conj(F[f])
                ok = biteq(r, rhs)
            rec.count("identity:conj", int(nz.sum()))
            rec.count("evaluations", int(nz.sum()))
            self.report("conj", f, z, r, rhs, ~ok & nz)
            self.classes("conj", f, z[nz][:20000])
        # (b) odd
        zn = neg(z)
        for f in ODD:
            r = ev(f, zn)
            rhs = neg(F[f])
            ok = biteq(r, rhs)
            dom = ~on_cut(f, z)
            bad = ~ok & dom
            rec.count("identity:odd", int(dom.sum()))
            rec.count("evaluations", int(dom.sum()))
            if bad.any():
                zero_in = (z.real == 0) | (z.imag == 0)
                only_sign = biteq(canon_zero(r), canon_zero(rhs))
                kz = bad & zero_in & only_sign
                self.report("odd", f, z, r, rhs, kz, extra_site=":zero-sign-only")
                self.report("odd", f, z, r, rhs, bad & ~kz)
            self.classes("odd", f, z[dom][:20000])
        # (c) even
        r = ev("square", zn)
        ok = biteq(r, F["square"])
        rec.count("identity:even", n)
        rec.count("evaluations", n)
        self.report("even", "square", z, r, F["square"], ~ok)
        self.classes("even", "square", z[:20000])
        # (d) rotations
        zi = muli(z)
        r = mulmi(ev("asin", zi))
        rec.count("identity:rot-asinh", n)
        self.report("rot", "asinh=-i*asin(i*z)", z, F["asinh"], r, ~biteq(F["asinh"], r))
        r = mulmi(ev("atanh", zi))
        rec.count("identity:rot-atan", n)
        self.report("rot", "atan=-i*atanh(i*z)", z, F["atan"], r, ~biteq(F["atan"], r))
        ac = F["acos"]
        rhs = numpy.where(~(z.imag < 0), muli(ac), mulmi(ac))
        rec.count("identity:rot-acosh", n)
        self.report("rot", "acosh=+-i*acos(z)", z, F["acosh"], rhs, ~biteq(F["acosh"], rhs))
        a = numpy.ascontiguousarray(F["acos"].imag)
        b = numpy.ascontiguousarray(-F["asin"].imag)
        rec.count("identity:imag-acos-asin", n)
        self.report("imag", "imag(acos)=-imag(asin)", z, a, b, ~biteq(a, b))
        rec.count("evaluations", 4 * n)
        for name in ("rot-asinh", "rot-atan", "rot-acosh", "imag-acos-asin"):
            self.classes(name, "", z[:20000])
        # real functions: asin, asinh odd; square even (inputs = real parts)
        x = numpy.ascontiguousarray(z.real)
        for f in ("asin", "asinh"):
            a = graph.interp_np(self.GR[f], -x)
            b = -graph.interp_np(self.GR[f], x)
            ok = biteq(a, b)
            rec.count("identity:odd", x.size)
            rec.count("evaluations", x.size)
            if (~ok).any():
                only_sign = biteq(canon_zero(a), canon_zero(b))
                kz = ~ok & (x == 0) & only_sign
                self.report("odd-real", f, x, a, b, kz, extra_site=":zero-sign-only")
                self.report("odd-real", f, x, a, b, ~ok & ~kz)
            self.classes("odd-real", f, x[:20000])
        a = graph.interp_np(self.GR["square"], -x)
        b = graph.interp_np(self.GR["square"], x)
        rec.count("identity:even", x.size)
        self.report("even-real", "square", x, a, b, ~biteq(a, b))


def lattice_values(fdt):
    fi = numpy.finfo(fdt)
    t = fdt
    sq = numpy.sqrt(t(fi.max))
    sm = numpy.sqrt(t(fi.smallest_normal))
    base = [0.0, fi.smallest_subnormal, t(fi.smallest_subnormal) * t(3), t(fi.smallest_normal) - t(fi.smallest_subnormal), fi.smallest_normal, sm, sm * t(4), fi.eps, 2.0**-12,
            0.2, 0.48, 0.5, numpy.nextafter(t(1), t(0)), 1.0, numpy.nextafter(t(1), t(2)), 1.5, 2.0, 1 / t(fi.epsneg), sq * t(0.01), sq / t(8), numpy.nextafter(sq, t(0)), sq,
            numpy.nextafter(sq, t(numpy.inf)), t(fi.max) / t(2), numpy.nextafter(t(fi.max), t(0)), fi.max, numpy.inf, numpy.log(t(fi.max)), numpy.pi / 2, 62919776.0 if fdt is numpy.float32 else 5805358775541310.0]
    vals = []
    for v in base:
        with numpy.errstate(all="ignore"):
            vals += [t(v), -t(v)]
    return numpy.array(vals, dtype=fdt)


def structured(rng, fdt, n):
    """axes, |x| = |y|, unit circle, x=-y^2/2, tiny/huge mixes, jittered by a few ulps"""
    f = exact.fmt(fdt)
    xs = gen.hostile_values(rng, fdt, n, finite_only=False)
    ys = gen.hostile_values(rng, fdt, n, finite_only=False)
    k = rng.integers(0, 6, size=n)
    with numpy.errstate(all="ignore"):
        t = rng.uniform(0, 2 * numpy.pi, size=n)
        ux, uy = numpy.cos(t).astype(fdt), numpy.sin(t).astype(fdt)
        eq = (rng.choice([-1, 1], size=n) * numpy.abs(xs)).astype(fdt)
        yy = (2.0 ** rng.uniform(-30, 0.5, size=n) * rng.choice([-1, 1], size=n)).astype(fdt)
        lx = (-fdt(0.5) * yy * yy).astype(fdt)
        one = (rng.choice([-1.0, 1.0], size=n)).astype(fdt)
        tiny = gen.random_bits(rng, fdt, n)
        tiny = numpy.where(numpy.abs(tiny) < 1, tiny, fdt(1) / tiny).astype(fdt)
    X = numpy.select([k == 0, k == 1, k == 2, k == 3, k == 4], [xs, ux, lx, one, numpy.zeros(n, dtype=fdt) * one], xs)
    Y = numpy.select([k == 0, k == 1, k == 2, k == 3, k == 4], [eq, uy, yy, tiny, ys], numpy.zeros(n, dtype=fdt) * one)
    # jitter
    j = rng.integers(-2, 3, size=n)
    ox = numpy.clip(exact.ordinal_arr(numpy.where(numpy.isnan(X), 0, X)) + j * (rng.random(n) < 0.3), -f.inf_bits, f.inf_bits)
    X = exact.from_ordinal_arr(fdt, ox)
    swap = rng.random(n) < 0.5
    X, Y = numpy.where(swap, Y, X), numpy.where(swap, X, Y)
    bad = numpy.isnan(X) | numpy.isnan(Y)
    X[bad] = 1.5
    Y[bad] = -0.25
    return graph.make_complex(X.astype(fdt), Y.astype(fdt))


def task_random(params, rec):
    cdt = getattr(numpy, params["cdtype"])
    ck = Checker(rec, cdt)
    rng = gen.rng_for(params["seed"], 3, params["shard"], numpy.dtype(cdt).itemsize)
    for rep in range(params["reps"]):
        n = params["n"]
        z = graph.make_complex(gen.random_bits(rng, ck.fdt, n), gen.random_bits(rng, ck.fdt, n))
        ck.run(z, "random")
        z = structured(rng, ck.fdt, n // 2)
        ck.run(z, "structured")
    rec.sample(dict(dtype=params["cdtype"], z=z[0], z2=z[1], kind="structured"))


def task_lattice(params, rec):
    cdt = getattr(numpy, params["cdtype"])
    ck = Checker(rec, cdt)
    vals = lattice_values(ck.fdt)
    z = graph.make_complex(numpy.repeat(vals, vals.size), numpy.tile(vals, vals.size))
    rec.count("lattice:points", z.size)
    ck.run(z, "lattice")
    rec.sample(dict(dtype=params["cdtype"], kind="lattice", representatives=int(vals.size), points=int(z.size), first=[z[1], z[70]]))


PARAMS = [dict(safe_min_limit=v) for v in (0.1, 1, 10, 1000)] + [dict(safe_max_limit_coefficient=c) for c in (1e-6, 0.5)] + [dict(safe_min_limit=10, safe_max_limit_coefficient=1e-3)]


def task_params(params, rec):
    """the documented tuning parameters of the real algorithms (Context(parameters=...)): a differently tuned asinh / acosh is still the same odd function,
    bit for bit - every branch of the parameterised selects has to test |x|, not x"""
    fdt = getattr(numpy, params["dtype"])
    rng = gen.rng_for(params["seed"], 31, numpy.dtype(fdt).itemsize)
    n = params["n"]
    with numpy.errstate(all="ignore"):
        x = numpy.concatenate([gen.random_bits(rng, fdt, n), (rng.choice([-1.0, 1.0], size=n) * 2.0 ** rng.uniform(-20, 20, size=n)).astype(fdt), lattice_values(fdt),
                               gen.hostile_values(rng, fdt, n // 4, finite_only=False)])
    x = x[~numpy.isnan(x)]
    ck = Checker.__new__(Checker)
    ck.rec = rec
    for P in PARAMS:
        tag = ",".join(f"{k}={v}" for k, v in P.items())
        for f in ("asinh", "asin"):
            g = graph.expanded(f, fdt, params=P)
            a = graph.interp_np(g, -x)
            b = -graph.interp_np(g, x)
            ok = biteq(a, b)
            rec.count("identity:odd", x.size)
            rec.count("identity:odd:parameterised", x.size)
            rec.count("evaluations", x.size)
            if (~ok).any():
                only_sign = biteq(canon_zero(a), canon_zero(b))
                kz = ~ok & (x == 0) & only_sign
                ck.report("odd-real", f, x, a, b, kz, extra_site=":zero-sign-only")
                ck.report("odd-real", f, x, a, b, ~ok & ~kz, extra_site=":parameterised")
            for c in set(vclass(x)[:20000].tolist()):
                rec.cls("odd-real-param", f, tag, numpy.dtype(fdt).name, c)
    rec.sample(dict(kind="parameterised real algorithms", parameters=PARAMS, points=int(x.size), dtype=params["dtype"]))


TASKS = {"random": task_random, "lattice": task_lattice, "params": task_params}


def plan(tier, seed):
    t = [("lattice", dict(cdtype=c)) for c in ("complex64", "complex128")]
    # the interpreter keeps every intermediate of the expanded graphs alive: ~3000 nodes x 16 bytes x n per run, so n stays near 10^5 and depth comes from reps
    n, reps, nsh = (120000, 1, 4) if tier == "quick" else (100000, 32, 8)
    for d in ("float32", "float64"):
        t.append(("params", dict(dtype=d, seed=seed, n=100000 if tier == "quick" else 2000000)))
    for c in ("complex64", "complex128"):
        for s in range(nsh):
            t.append(("random", dict(cdtype=c, seed=seed, shard=s, n=n, reps=reps)))
    return t


def replay(site, witness, rec):
    dtn = witness["dtype"]
    if site.endswith(":parameterised"):
        fdt = getattr(numpy, dtn)
        x = numpy.array([unfl(witness["z"], fdt)], dtype=fdt)
        ck = Checker.__new__(Checker)
        ck.rec = rec
        for P in PARAMS:
            g = graph.expanded(witness["function"], fdt, params=P)
            a, b = graph.interp_np(g, -x), -graph.interp_np(g, x)
            rec.count("evaluations", 1)
            ck.report("odd-real", witness["function"], x, a, b, ~biteq(a, b), extra_site=":parameterised")
        return
    if dtn.startswith("complex"):
        cdt = getattr(numpy, dtn)
        fdt = {numpy.complex64: numpy.float32, numpy.complex128: numpy.float64}[cdt]
        zr, zi = witness["z"]
        z = graph.make_complex(numpy.array([unfl(zr, fdt)], dtype=fdt), numpy.array([unfl(zi, fdt)], dtype=fdt))
    else:
        fdt = getattr(numpy, dtn)
        cdt = {numpy.float32: numpy.complex64, numpy.float64: numpy.complex128}[fdt]
        z = graph.make_complex(numpy.array([unfl(witness["z"], fdt)], dtype=fdt), numpy.array([1.0], dtype=fdt))
    Checker(rec, cdt).run(z, "replay")
