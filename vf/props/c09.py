"""C09 — code generation is deterministic and history independent.

History monitor over processes: a canonical digest table (fresh interpreter, PYTHONHASHSEED=0, sorted order) must be
reproduced byte for byte by every other history: other hash seeds, orders, in-process repetitions, pollution prefixes.
"""
import difflib
import hashlib
import json
import os
import random
import subprocess
import sys

LEVEL = "exploration"
RULE = ("keys = every (target, function, signature) of python/numpy(+debug=1)/stablehlo/xla_client/cpp/lax trace_arguments + the six apmath->lax generations of "
        "tools/generate_apmath_lax.py; histories = fresh interpreters differing in PYTHONHASHSEED, key order (sorted/reversed/shuffled), in-process repetition "
        "(3x), pollution prefixes (other targets, alternative context, temporary symbols + warn_once, failing traces, deep_first=False rewrites, apmath first, "
        "expression churn) and interleaved pollution. distinct_nontrivial = number of distinct (history, key) pairs whose text was generated (not refused) "
        "and compared with the canonical table")
ASSUME = ["sha256 collisions are negligible", "generation refusals (NotImplementedError) must themselves be reproducible"]
REQUIRE = ["evaluations", "histories:compared", "keys:generated", "shared-context:compared"]

REFUSED = hashlib.sha256(b"NotImplementedError").hexdigest()
ROOT = os.path.dirname(os.path.dirname(os.path.dirname(os.path.abspath(__file__))))


def run_child(history, hashseed, timeout=1800):
    env = dict(os.environ)
    env["PYTHONHASHSEED"] = str(hashseed)
    p = subprocess.run([sys.executable, "-m", "vf.props.c09_child", json.dumps(history)], cwd=ROOT, env=env, capture_output=True, text=True, timeout=timeout)
    if p.returncode != 0:
        raise RuntimeError(f"child failed rc={p.returncode}: {p.stderr[-800:]}")
    return json.loads(p.stdout.strip().splitlines()[-1])


def task_history(params, rec):
    canon = params["canonical"]
    h = params["history"]
    try:
        out = run_child(h, params["hashseed"])
    except subprocess.TimeoutExpired:
        rec.inconc(f"history child timed out: {h}")
        return
    except Exception as e:
        rec.inconc(f"history child crashed: {e}"[:600])
        return
    rec.count("histories:compared")
    desc = dict(history=h, hashseed=params["hashseed"])
    hid = hashlib.sha1(json.dumps(desc, sort_keys=True).encode()).hexdigest()[:10]
    for k, msg in out["errors"].items():
        rec.violation("in-process-repetition-differs", dict(desc, key=k, detail=msg))
    n = 0
    for k, d in out["digests"].items():
        rec.count("evaluations")
        if k not in canon:
            continue
        if canon[k] != d:
            # fetch both texts for a diff witness (once per history: each fetch costs two generations)
            diff = "(diff fetched for the first differing key of this history only)"
            nmis = rec.viol_counts.get("text-differs-from-canonical", 0)
            try:
                if nmis > 0:
                    raise StopIteration
                a = run_child(dict(order="sorted", keys=[k], texts=True), 0)["texts"].get(k, "")
                b = run_child(dict(h, keys=[k], texts=True), params["hashseed"])["texts"].get(k, "")
                diff = "\n".join(list(difflib.unified_diff(a.splitlines(), b.splitlines(), "canonical", "history", lineterm="", n=1))[:40])
            except StopIteration:
                pass
            except Exception as e:
                diff = f"(diff unavailable: {e})"[:200]
            rec.violation("text-differs-from-canonical", dict(desc, key=k, diff=diff[:3000]))
        else:
            n += 1
            if d != REFUSED:
                rec.cls(hid, k)
    rec.count("keys:generated", n)
    for k in list(out["digests"])[:40]:
        pass
    rec.note("keys_per_history", len(out["digests"]))
    rec.sample(desc)


IDENT = __import__("re").compile(r"[A-Za-z_][A-Za-z_0-9]*|\s+|.")


def ast_alpha_equivalent(a, b):
    """Python / NumPy text: the two sources parse to the same syntax tree up to a consistent one-to-one renaming of variable names (the formatter breaks lines
    and adds trailing commas depending on the length of the names, which a token comparison would take for a difference)"""
    import ast

    ta, tb = ast.parse(a), ast.parse(b)
    fwd, bwd = {}, {}

    def same(x, y):
        if type(x) is not type(y):
            return False
        if isinstance(x, ast.AST):
            for f in x._fields:
                u, v = getattr(x, f, None), getattr(y, f, None)
                if (isinstance(x, ast.Name) and f == "id") or (isinstance(x, ast.arg) and f == "arg"):
                    if fwd.setdefault(u, v) != v or bwd.setdefault(v, u) != u:
                        return False
                elif not same(u, v):
                    return False
            return True
        if isinstance(x, list):
            return len(x) == len(y) and all(same(u, v) for u, v in zip(x, y))
        return x == y

    return same(ta, tb)


def alpha_equivalent(a, b, python_syntax=False):
    """True when the two texts are the same token sequence up to a consistent one-to-one renaming of identifiers"""
    if python_syntax:
        try:
            return ast_alpha_equivalent(a, b)
        except SyntaxError:
            pass
    ta = [t for t in IDENT.findall(a) if not t.isspace()]
    tb = [t for t in IDENT.findall(b) if not t.isspace()]
    if len(ta) != len(tb):
        return False
    fwd, bwd = {}, {}
    prev = ""
    for x, y in zip(ta, tb):
        isid = x[0].isalpha() or x[0] == "_"
        member = prev in (".", ":")  # (z).real(), std::sqrt: a member / qualified name is not a local variable, even when a local is called `real` too
        prev = x
        if not isid or not (y[0].isalpha() or y[0] == "_") or member:
            if x != y:
                return False
            continue
        if fwd.setdefault(x, y) != y or bwd.setdefault(y, x) != x:
            return False
    return True


def task_shared(params, rec):
    """the other reading of 'regardless of which targets were used earlier': the SAME context and traced graph printed for a second target"""
    try:
        out = run_child(dict(shared_context=params["pairs"]), params["hashseed"])["shared"]
    except subprocess.TimeoutExpired:
        rec.inconc("shared-context child timed out")
        return
    except Exception as e:
        rec.inconc(f"shared-context child crashed: {e}"[:600])
        return
    for k, r in out.items():
        fname, a, b = k.split("|")
        if r.get("refused"):
            rec.count("shared-context:refused")
            continue
        if "error" in r:
            rec.violation("shared-context:second-target-raises", dict(function=fname, first=a, second=b, exc=r["error"]))
            continue
        rec.count("evaluations")
        rec.count("shared-context:compared")
        rec.cls("shared", fname, a, b)
        if not r["same"]:
            ae = alpha_equivalent(r["alone"], r["after"], python_syntax=b in ("python", "numpy"))
            diff = "\n".join(list(difflib.unified_diff(r["alone"].splitlines(), r["after"].splitlines(), "own-context", "after-" + a, lineterm="", n=0))[:12])
            rec.violation("shared-context:text-depends-on-earlier-target", dict(function=fname, first=a, second=b, only_local_names_renamed=ae, diff=diff[:1500]))


TASKS = {"history": task_history, "shared": task_shared}
SHARD_TIMEOUT = {"quick": 4000, "thorough": 6000}

POLL = ["other-targets", "alt-context", "tmp-symbols", "failing-traces", "deep-first-false", "apmath-first", "special-functions", "expression-churn"]


def histories(tier, seed):
    rnd = random.Random(f"c09-{seed}")
    hs = [
        (dict(order="sorted"), 1),
        (dict(order="reversed"), 2),
        (dict(order="shuffle:%d" % rnd.randint(0, 10**6)), 3),
        (dict(order="sorted", repeat=3), 0),
        (dict(order="shuffle:%d" % rnd.randint(0, 10**6), pollution=["other-targets", "tmp-symbols"]), rnd.randint(4, 10**6)),
        (dict(order="sorted", pollution=["alt-context", "failing-traces", "deep-first-false"]), rnd.randint(4, 10**6)),
        (dict(order="reversed", pollution=["apmath-first", "special-functions", "expression-churn"]), rnd.randint(4, 10**6)),
        (dict(order="shuffle:%d" % rnd.randint(0, 10**6), interleave_pollution=True, repeat=2), rnd.randint(4, 10**6)),
        (dict(order="sorted", pollution=["tmp-symbols"] * 3), 0),
        (dict(order="shuffle:%d" % rnd.randint(0, 10**6)), "random"),
        (dict(order="shuffle:%d" % rnd.randint(0, 10**6), repeat=2), rnd.randint(4, 10**6)),
    ]
    if tier == "thorough":
        for i in range(150):
            h = dict(order=rnd.choice(["sorted", "reversed"] + ["shuffle:%d" % rnd.randint(0, 10**6)] * 4))
            if rnd.random() < 0.3:
                h["repeat"] = rnd.choice([2, 3])
            if rnd.random() < 0.6:
                h["pollution"] = rnd.sample(POLL, rnd.randint(1, 4))
            if rnd.random() < 0.3:
                h["interleave_pollution"] = True
            hs.append((h, rnd.choice([0, 1, 2, 3, "random", rnd.randint(4, 2**32 - 1), rnd.randint(4, 2**32 - 1)])))
    return hs


def plan(tier, seed):
    canon = run_child(dict(order="sorted"), 0)
    if canon["errors"]:
        raise RuntimeError("canonical run reported errors: %r" % canon["errors"])
    t = [("history", dict(canonical=canon["digests"], history=h, hashseed=hs)) for h, hs in histories(tier, seed)]
    SHARED_FUNCS = ["absolute", "acosh", "asin", "atanh", "log1p", "sqrt", "exp", "square"]
    SHARED_TARGETS = ["python", "numpy", "stablehlo", "cpp"]
    rnd = random.Random(f"c09-shared-{seed}")
    pairs = [(f, a, b) for f in SHARED_FUNCS for a in SHARED_TARGETS for b in SHARED_TARGETS if a != b]
    if tier == "quick":
        pairs = rnd.sample(pairs, 24)
    for i in range(0, len(pairs), 12):
        t.append(("shared", dict(pairs=pairs[i:i + 12], hashseed=rnd.choice([0, 1, 12345]))))
    return t


def replay(site, witness, rec):
    canon = run_child(dict(order="sorted"), 0)["digests"]
    task_history(dict(canonical=canon, history=witness["history"], hashseed=witness["hashseed"]), rec)
