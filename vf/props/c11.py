"""C11 — emulated compound operations meet their documented error bounds.

The real next/nextup/nextdown, is_power_of_two, add_3sum, add_4sum, mul_add, dot2 (floating_point_algorithms) and every
variant of the emulated fma (apmath.fma through trace->NumPy target, apmath_algorithms.fma_real through NumpyContext) are run
on directed operand tuples; oracle = exact integer arithmetic -> RN -> lattice distance.
"""
import itertools
import warnings

import numpy

from .. import exact, gen
from ..core import unfl

LEVEL = "exploration"
RULE = ("unary ops: every float16 value; float32/64: every power of two +-3 ulps in every binade + hostile values. Tuples: relation generators (ties: z = -RN(xy) +- k "
        "ulp, exact-midpoint products of short mantissas, binade edges, near cancellation, z = 0, products near overflow/underflow, equal magnitudes) for float16/32/64; "
        "fma variants a7/a8/a9/apmath x fix_overflow x possibly_zero_z (+ scale for apmath.fma). distinct_nontrivial = distinct (operation, variant, dtype, generator class, "
        "ulp distance, result class) tuples among in-domain tuples whose exact result is not representable")
ASSUME = ["vf.exact units arithmetic", "IEEE RN-even arithmetic in NumPy"]
REQUIRE = ["evaluations", "judged:next", "judged:is_power_of_two", "judged:add_3sum", "judged:add_4sum", "judged:mul_add", "judged:dot2", "judged:fma_real", "judged:apmath.fma"]


def EXHAUSTIVE(tier):
    return "float16: next/nextup/nextdown and is_power_of_two on every value of their documented domains"


POW2_WINDOW = {16: (-24, 6), 32: (-129, 105), 64: (-1074, 972)}


def is_pow2_ref(x):
    """independent: |x| is a power of two (subnormals included)"""
    f = exact.fmt(x.dtype)
    b = numpy.ascontiguousarray(x).view(f.uint).astype(numpy.uint64) & numpy.uint64(f.sign_bit - 1)
    e = b >> numpy.uint64(f.p - 1)
    fr = b & numpy.uint64((1 << (f.p - 1)) - 1)
    sub_pow2 = (e == 0) & (fr != 0) & ((fr & (fr - numpy.uint64(1))) == 0)
    return ((e != 0) & (fr == 0)) | sub_pow2


def tuples(rng, dt, n, arity):
    """directed operand tuples; returns list of arrays and a generator-class array"""
    f = exact.fmt(dt)
    X, Y, c = gen.hostile_pairs(rng, dt, n)
    out = [X, Y]
    with numpy.errstate(all="ignore"):
        # third operand: near -RN(x*y) (fma ties / cancellation), near -(x+y), hostile, zero
        k = rng.integers(0, 6, size=n)
        prod = (X.astype(numpy.float64) * Y.astype(numpy.float64)).astype(dt)
        jit = rng.integers(-3, 4, size=n)
        o = exact.ordinal_arr(numpy.where(numpy.isfinite(prod), prod, 0))
        z_can = -exact.from_ordinal_arr(dt, numpy.clip(o + jit, -(f.inf_bits - 1), f.inf_bits - 1))
        ssum = (X + Y)
        o2 = exact.ordinal_arr(numpy.where(numpy.isfinite(ssum), ssum, 0))
        z_sum = -exact.from_ordinal_arr(dt, numpy.clip(o2 + jit, -(f.inf_bits - 1), f.inf_bits - 1))
        half_ulp = numpy.ldexp(numpy.float64(1), numpy.frexp(prod.astype(numpy.float64))[1] - 1 - f.p).astype(dt) * rng.choice([-1, 1], size=n).astype(dt)
        host = gen.hostile_values(rng, dt, n)
        # fma tie constructor: z such that RN(x*y) + z is an exact midpoint of the result lattice, so that the sign of the (non-zero) product
        # error term alone decides the correctly rounded result (the case the a8/a9 corrections exist for)
        ku = exact.units_exp(dt)
        mh = numpy.where(numpy.isfinite(prod), prod, 0).astype(dt)
        mhu = exact.to_units(mh)
        low = mhu & (-mhu)  # lowest set bit (object ints)
        lowlog = numpy.frompyfunc(lambda v: int(v).bit_length() - 1 if v else 0, 1, 1)(low).astype(numpy.int64)
        cc = rng.integers(1 << (f.p - 1), 1 << f.p, size=n).astype(numpy.float64) * rng.choice([-1.0, 1.0], size=n)
        z_tie = numpy.ldexp(cc, lowlog + 1 + ku).astype(dt)  # c * q with q = 2 * lowbit(mh)
        z_tie = numpy.where(numpy.isfinite(z_tie) & (mhu != 0).astype(bool), z_tie, host).astype(dt)
        k = numpy.where((k >= 4) & (rng.random(n) < 0.5), 6, k)
        Z = numpy.select([k == 0, k == 1, k == 2, k == 3, k == 6], [z_can, z_sum, half_ulp, numpy.zeros(n, dtype=dt), z_tie], host).astype(dt)
    Z[~numpy.isfinite(Z)] = dt(0.5)
    out.append(Z)
    if arity == 4:
        with numpy.errstate(all="ignore"):
            W = numpy.where(rng.random(n) < 0.4, -(prod.astype(numpy.float64) / numpy.where(Z == 0, 1, Z).astype(numpy.float64)).astype(dt), gen.hostile_values(rng, dt, n)).astype(dt)
        W[~numpy.isfinite(W)] = dt(-0.25)
        out.append(W)
    return out, c * 10 + k


def judge(rec, name, variant, dt, got, exact_units, kexp, dom, bound, cls, operands, extra=None):
    """got: array of results; exact_units: object array n with true value n*2^kexp; dom: bool mask"""
    f = exact.fmt(dt)
    got = numpy.asarray(got)
    if got.shape != dom.shape:
        got = numpy.broadcast_to(got, dom.shape)
    rn = exact.rn_units(exact_units, kexp, dt)
    dom = dom & numpy.isfinite(rn)
    n = int(dom.sum())
    rec.count("evaluations", dom.size)
    rec.count("judged:" + name, n)
    if n == 0:
        return
    d = exact.ulp_distance_arr(got, rn)
    bad = dom & (d > bound)
    if bad.any():
        i = int(numpy.flatnonzero(bad)[0])
        # report per mechanism flag so that a listed mechanism cannot hide an unlisted one
        groups = [(None, bad)]
        if extra:
            groups = []
            rest = bad.copy()
            for key, mask in extra.items():
                groups.append((key, bad & mask))
                rest &= ~mask
            groups.append((None, rest))
        for key, m in groups:
            if not m.any():
                continue
            i = int(numpy.flatnonzero(m)[0])
            w = dict(operation=name, variant=variant, dtype=numpy.dtype(dt).name, operands=[o[i] for o in operands], got=got[i], expected=rn[i], ulps=int(min(d[i], 1 << 40)), bound=bound)
            if key:
                w[key] = True
            rec.violation(f"{name}-bound:{variant}" + (f":{key}" if key else ""), w, n=int(m.sum()))
    rep = exact.representable_units(exact_units, kexp, dt)
    sel = dom & ~rep
    if sel.any():
        dd = numpy.minimum(d[sel], 9)
        cc = cls[sel] if cls is not None else numpy.zeros(int(sel.sum()), dtype=int)
        subn = numpy.abs(rn[sel]) < numpy.finfo(dt).smallest_normal
        for a_, b_, s_ in set(zip(cc[:4000].tolist(), dd[:4000].tolist(), subn[:4000].tolist())):
            rec.cls(name, variant, numpy.dtype(dt).name, a_, b_, s_)


def params_for(dt):
    p = exact.fmt(dt).p
    return dt(1 << (p - 1)), dt((1 << (p - 1)) + 1), dt(1.5), dt(2 ** ((p + 1) // 2) + 1)


def task_unary(params, rec):
    from functional_algorithms import floating_point_algorithms as fpa, utils

    dt = getattr(numpy, params["dtype"])
    f = exact.fmt(dt)
    ctx = utils.NumpyContext(dt)
    if f.bits == 16:
        x = exact.all_values(dt)
        x = x[numpy.isfinite(x)]
    else:
        rng = gen.rng_for(params["seed"], 11, f.bits)
        x = numpy.concatenate([gen.powers_of_two(dt, k=3), gen.hostile_values(rng, dt, params["n"]), gen.all_exponents_structured(rng, dt)])
        x = x[numpy.isfinite(x)]
    fi = numpy.finfo(dt)
    # next / nextup / nextdown: normal finite x whose neighbour is also normal
    with numpy.errstate(all="ignore"):
        for up, fn in ((True, fpa.nextup), (False, fpa.nextdown)):
            ref = numpy.nextafter(x, dt(numpy.inf if up else -numpy.inf))
            dom = (numpy.abs(x) >= fi.smallest_normal) & numpy.isfinite(ref) & (numpy.abs(ref) >= fi.smallest_normal)
            for form, call in (("next", lambda v: fpa.next(ctx, v, up=up)), ("nextup/down", lambda v: fn(ctx, v))):
                r = numpy.asarray(call(x))
                bad = dom & ~((r == ref))
                rec.count("evaluations", x.size)
                rec.count("judged:next", int(dom.sum()))
                if bad.any():
                    i = int(numpy.flatnonzero(bad)[0])
                    rec.violation(f"next:{'up' if up else 'down'}", dict(dtype=params["dtype"], x=x[i], got=r[i], expected=ref[i], form=form), n=int(bad.sum()))
            # scalar call form on a subsample
            for v in x[:: max(1, x.size // 300)]:
                if abs(v) >= fi.smallest_normal:
                    rr = fpa.next(ctx, dt(v), up=up)
                    e = numpy.nextafter(dt(v), dt(numpy.inf if up else -numpy.inf))
                    if numpy.isfinite(e) and abs(e) >= fi.smallest_normal and rr != e:
                        rec.violation(f"next:{'up' if up else 'down'}", dict(dtype=params["dtype"], x=dt(v), got=rr, expected=e, form="scalar"))
        rec.cls("next", params["dtype"], int(x.size > 0))
        # is_power_of_two on the documented window, default parameters and explicit Q, P, both polarities
        lo, hi = POW2_WINDOW[f.bits]
        ax = numpy.abs(x.astype(numpy.float64)) if f.bits < 64 else numpy.abs(x)
        dom = (ax >= 2.0**lo) & (ax < 2.0**hi) if lo > -1074 else ((ax > 0) & (ax < 2.0**hi))
        ref = is_pow2_ref(x)
        Q, P, _, _ = params_for(dt)
        xs_ = x if f.bits == 16 else x[:: max(1, x.size // 60000)]
        if f.bits != 16:
            dom, ref, ax = dom[:: max(1, x.size // 60000)], ref[:: max(1, x.size // 60000)], None
        x_all, x = x, xs_
        # the make_api wrapper checks the `-> bool` annotation and refuses arrays: scalar calls, as the repository's own tests do
        for variant, call in (("default", lambda inv: [fpa.is_power_of_two(ctx, v, invert=inv) for v in x]), ("QP", lambda inv: [fpa.is_power_of_two(ctx, v, Q, P, invert=inv) for v in x])):
            for inv in (False, True):
                r = numpy.asarray(call(inv)).astype(bool)
                bad = dom & (r != (ref ^ inv))
                rec.count("evaluations", x.size)
                rec.count("judged:is_power_of_two", int(dom.sum()))
                if bad.any():
                    i = int(numpy.flatnonzero(bad)[0])
                    rec.violation("is_power_of_two", dict(dtype=params["dtype"], x=x[i], got=bool(r[i]), expected=bool(ref[i] ^ inv), variant=variant, invert=inv), n=int(bad.sum()))
        # the constants handed out by the package's own helper (only usable when tracing): trace, emit for NumPy, run on the same values
        try:
            import functional_algorithms as fa
            from functional_algorithms import rewrite as fa_rewrite

            def helper_route(ctx, v):
                largest = ctx.constant("largest", v)
                Qh, Ph = fpa.get_is_power_of_two_constants(ctx, largest)
                return ctx.select(fpa.is_power_of_two(ctx, v, Qh, Ph), ctx.constant(1, v), ctx.constant(0, v))

            with warnings.catch_warnings():
                warnings.simplefilter("ignore")
                tctx = fa.Context(paths=[fa.algorithms])
                g = tctx.trace(helper_route, dt).rewrite(fa.targets.numpy, fa_rewrite)
                fn = fa.targets.numpy.as_function(g, debug=0)
                with numpy.errstate(all="ignore"):
                    r = numpy.array([bool(fn(v)) for v in x[:20000]])
            d_, ref_ = dom[:20000], ref[:20000]
            bad = d_ & (r != ref_)
            rec.count("evaluations", int(r.size))
            rec.count("judged:is_power_of_two", int(d_.sum()))
            rec.count("judged:is_power_of_two:helper-constants", int(d_.sum()))
            if bad.any():
                i = int(numpy.flatnonzero(bad)[0])
                rec.violation("is_power_of_two", dict(dtype=params["dtype"], x=x[i], got=bool(r[i]), expected=bool(ref_[i]), variant="get_is_power_of_two_constants (traced)", invert=False), n=int(bad.sum()))
        except Exception as e:
            rec.violation("is_power_of_two-helper-exception", dict(dtype=params["dtype"], exc=f"{type(e).__name__}: {e}"[:300]))
        for a_, b_ in set(zip(ref[dom][:5000].tolist(), (numpy.abs(x[dom]) < fi.smallest_normal)[:5000].tolist())):
            rec.cls("is_power_of_two", params["dtype"], a_, b_)
    rec.sample(dict(kind="unary", dtype=params["dtype"], values=int(x.size), first=[x[0], x[x.size // 2]]))


def task_sums(params, rec):
    from functional_algorithms import floating_point_algorithms as fpa, utils

    dt = getattr(numpy, params["dtype"])
    f = exact.fmt(dt)
    ctx = utils.NumpyContext(dt)
    Q, P, t32, C = params_for(dt)
    rng = gen.rng_for(params["seed"], 111, params["shard"], f.bits)
    k = exact.units_exp(dt)
    big = float(numpy.finfo(dt).max)
    for rep in range(params["reps"]):
        (x, y, z, w), cls = tuples(rng, dt, params["n"], 4)
        ax = [numpy.abs(v.astype(numpy.float64)) for v in (x, y, z, w)]
        ux, uy, uz, uw = (exact.to_units(v) for v in (x, y, z, w))
        with numpy.errstate(all="ignore"), warnings.catch_warnings():
            warnings.simplefilter("ignore")
            def scal(fn, *arrs):
                outs = [fn(*[a[i] for a in arrs]) for i in range(arrs[0].size)]
                if isinstance(outs[0], tuple):
                    return tuple(numpy.array([o[j] for o in outs], dtype=dt) for j in range(len(outs[0])))
                return numpy.array(outs, dtype=dt)

            # 3Sum (scalar calls: is_power_of_two inside refuses arrays under NumpyContext)
            dom3 = (ax[0] < big / 4) & (ax[1] < big / 4) & (ax[2] < big / 4)
            s, e, t = scal(lambda a, b, c: fpa.add_3sum(ctx, a, b, c, Q, P, t32), x, y, z)
            ok = numpy.isfinite(s) & numpy.isfinite(e) & numpy.isfinite(t)
            tot = exact.to_units(numpy.where(ok, s, 0).astype(dt)) + exact.to_units(numpy.where(ok, e, 0).astype(dt)) + exact.to_units(numpy.where(ok, t, 0).astype(dt))
            ex3 = ux + uy + uz
            bad = dom3 & (~ok | (tot != ex3).astype(bool))
            if bad.any():
                i = int(numpy.flatnonzero(bad)[0])
                rec.violation("add_3sum-exact", dict(dtype=params["dtype"], operands=[x[i], y[i], z[i]], s=s[i], e=e[i], t=t[i]), n=int(bad.sum()))
            judge(rec, "add_3sum", "s+(e+t)", dt, s + (e + t), ex3, k, dom3, 1, cls, (x, y, z))
            # 4Sum
            dom4 = dom3 & (ax[3] < big / 4)
            r4 = scal(lambda a, b, c, d: fpa.add_4sum(ctx, a, b, c, d, Q, P, t32), x, y, z, w)
            judge(rec, "add_4sum", "", dt, r4, ux + uy + uz + uw, k, dom4, 1, cls, (x, y, z, w))
            # mul_add, dot2: products in units 2^(2k)
            sq = numpy.sqrt(big) / 2
            domm = (ax[0] < sq) & (ax[1] < sq) & (ax[2] < big / 2)
            exm = ux * uy + uz * (1 << (-k))
            # the Dekker building block must be on its own domain (error term representable: no underflow in the product)
            pe = ux * uy
            rnp = exact.rn_units(pe, 2 * k, dt)
            err_ok = exact.representable_units(pe - exact.to_units(numpy.where(numpy.isfinite(rnp), rnp, 0).astype(dt)) * (1 << (-k)), 2 * k, dt)
            rm = scal(lambda a, b, c: fpa.mul_add(ctx, a, b, c, C, Q, P, t32), x, y, z)
            judge(rec, "mul_add", "", dt, rm, exm, 2 * k, domm & err_ok, 2, cls, (x, y, z))
            domd = (ax[0] < sq) & (ax[1] < sq) & (ax[2] < sq) & (ax[3] < sq)
            pe2 = uz * uw
            rnp2 = exact.rn_units(pe2, 2 * k, dt)
            err_ok2 = exact.representable_units(pe2 - exact.to_units(numpy.where(numpy.isfinite(rnp2), rnp2, 0).astype(dt)) * (1 << (-k)), 2 * k, dt)
            rd = scal(lambda a, b, c, d: fpa.dot2(ctx, a, b, c, d, C, Q, P, t32), x, y, z, w)
            judge(rec, "dot2", "", dt, rd, pe + pe2, 2 * k, domd & err_ok & err_ok2, 3, cls, (x, y, z, w))
        if rep == 0:
            rec.sample(dict(kind="tuple", dtype=params["dtype"], x=x[0], y=y[0], z=z[0], w=w[0]))


FMA_VARIANTS = [dict(algorithm=a, fix_overflow=fo, possibly_zero_z=pz) for a, fo, pz in itertools.product(["a7", "a8", "a9", "apmath"], [True, False], [True, False])]


def task_fma(params, rec):
    import functional_algorithms as fa
    from functional_algorithms import apmath, apmath_algorithms, utils, rewrite, targets

    dt = getattr(numpy, params["dtype"])
    f = exact.fmt(dt)
    ctx = utils.NumpyContext(dt)
    rng = gen.rng_for(params["seed"], 112, params["shard"], f.bits)
    k = exact.units_exp(dt)
    # route (b): apmath.fma traced -> NumPy target -> arrays (what is actually emitted)
    emitted = {}
    if params.get("emitted", True):
        for v in FMA_VARIANTS:
            for scale in (True, False):
                key = (v["algorithm"], v["fix_overflow"], v["possibly_zero_z"], scale)
                try:
                    c = fa.Context(paths=[fa.apmath_algorithms])
                    g = c.trace(apmath.fma, dt, dt, dt, functional=True, scale=scale, size=None, assume_fma=False, **v).rewrite(targets.numpy, rewrite, rewrite)
                    emitted[key] = targets.numpy.as_function(g, debug=0, force_cast_arguments=False)
                except Exception as e:
                    rec.count("apmath.fma:trace-refused:" + type(e).__name__)
    for rep in range(params["reps"]):
        (x, y, z), cls = tuples(rng, dt, params["n"], 3)
        ux, uy, uz = (exact.to_units(v) for v in (x, y, z))
        pe = ux * uy
        ex = pe + uz * (1 << (-k))
        dom = numpy.isfinite(exact.rn_units(pe, 2 * k, dt))  # x*y finite; x*y+z finite is added by judge()
        with numpy.errstate(all="ignore"), warnings.catch_warnings():
            warnings.simplefilter("ignore")
            # documented caveat: without fix_overflow an overflow inside the Dekker product / 2Sum yields nan: those variants are judged
            # where the building blocks are on their own (C10) domains: |x*y| (1 + 2^-(p-s))^2 <= largest and RN(x*y) + z finite
            p_, s_ = f.p, (f.p + 1) // 2
            with numpy.errstate(all="ignore"):
                lm = numpy.log2(numpy.maximum(numpy.abs(x.astype(numpy.float64)), 1e-300)) + numpy.log2(numpy.maximum(numpy.abs(y.astype(numpy.float64)), 1e-300))
                no_int_ovf = lm + 2 * numpy.log2(1 + 2.0 ** -(p_ - s_)) < numpy.log2(float(numpy.finfo(dt).max)) - 1e-9
                mh_ = exact.rn_units(pe, 2 * k, dt)
                no_sum_ovf = numpy.isfinite(mh_) & numpy.isfinite(numpy.where(numpy.isfinite(mh_), mh_, 0).astype(dt) + z) & (numpy.abs(z.astype(numpy.float64)) < float(numpy.finfo(dt).max) / 2) & (numpy.abs(mh_.astype(numpy.float64)) < float(numpy.finfo(dt).max) / 2)
            sub = slice(0, max(1, x.size // 8))
            with numpy.errstate(all="ignore"):
                fallback = (x * y).astype(dt) + z  # what the documented fix_overflow fallback (xyh = x*y, xyl = 0) amounts to: RN(RN(x*y) + z)

            tz_ = numpy.frompyfunc(lambda n_: ((int(n_) & -int(n_)).bit_length() - 1) if int(n_) != 0 else 10**6, 1, 1)
            prod_underflow = ((tz_(ux).astype(numpy.int64) + tz_(uy).astype(numpy.int64)) < -k) & (ux != 0).astype(bool) & (uy != 0).astype(bool)

            def ovf_groups(r_, sl=slice(None)):
                """KF-C11-fma-overflow-fallback is the mechanism 'the fallback drops the error term': only results equal to RN(RN(x*y)+z) belong to it;
                anything else in the internal-overflow region (an infinity, a NaN, another value) is reported under its own site"""
                r_ = numpy.broadcast_to(numpy.asarray(r_), x[sl].shape)
                o = ~no_int_ovf[sl]
                fb = fallback[sl]
                # when RN(RN(x*y)+z) itself overflows, the fallback path ends in an infinity or (inf - inf in the following 2Sum) a NaN
                same = numpy.where(numpy.isfinite(fb), r_ == fb, ~numpy.isfinite(r_))
                # the other end of the range: the exact product x*y has bits below the smallest subnormal, so its Dekker partial products are rounded
                # (KF-C11-fma-product-underflow); kept apart from everything else so that only small errors there are attributed to it
                return dict(dekker_internal_overflow=o & same, internal_overflow_result_is_not_the_documented_fallback=o & ~same,
                            product_bits_below_smallest_subnormal=prod_underflow[sl] & ~o)

            for v in FMA_VARIANTS:
                name = f"{v['algorithm']}:fo={int(v['fix_overflow'])}:pz={int(v['possibly_zero_z'])}"
                dv = dom if v["fix_overflow"] else (dom & no_int_ovf & no_sum_ovf)
                try:
                    if v["algorithm"] in ("a7", "apmath"):
                        r = apmath_algorithms.fma_real(ctx, x, y, z, functional=True, **v)
                        judge(rec, "fma_real", name, dt, r, ex, 2 * k, dv, 1, cls, (x, y, z), extra=ovf_groups(r))
                    else:
                        # a8/a9 use is_power_of_two-type predicates whose api wrapper refuses arrays: scalar calls on a subsample
                        r = numpy.array([apmath_algorithms.fma_real(ctx, a, b, c, functional=True, **v) for a, b, c in zip(x[sub], y[sub], z[sub])], dtype=dt)
                        judge(rec, "fma_real", name, dt, r, ex[sub], 2 * k, dv[sub], 1, cls[sub], (x[sub], y[sub], z[sub]), extra=ovf_groups(r, sub))
                except Exception as e:
                    rec.violation("fma_real-exception:" + name, dict(dtype=params["dtype"], exc=f"{type(e).__name__}: {e}"[:200]))
                for scale in (True, False):
                    fn = emitted.get((v["algorithm"], v["fix_overflow"], v["possibly_zero_z"], scale))
                    if fn is None:
                        continue
                    try:
                        r = fn(x, y, z)
                        d2 = dom if v["fix_overflow"] else (dom & no_int_ovf & no_sum_ovf)
                        if not scale:
                            lim = {16: 986.0, 32: 7.5e33, 64: 4.3e299}[f.bits]
                            d2 = d2 & (numpy.abs(x.astype(numpy.float64)) <= lim) & (numpy.abs(y.astype(numpy.float64)) <= lim)
                        judge(rec, "apmath.fma", name + f":scale={int(scale)}", dt, r, ex, 2 * k, d2, 1, cls, (x, y, z), extra=ovf_groups(r))
                    except Exception as e:
                        rec.violation("apmath.fma-exception:" + name, dict(dtype=params["dtype"], exc=f"{type(e).__name__}: {e}"[:200]))
        if rep == 0:
            rec.sample(dict(kind="fma triple", dtype=params["dtype"], x=x[0], y=y[0], z=z[0]))


TASKS = {"unary": task_unary, "sums": task_sums, "fma": task_fma}
SHARD_TIMEOUT = {"quick": 1500, "thorough": 9000}


def plan(tier, seed):
    t = []
    for dtn in ("float16", "float32", "float64"):
        t.append(("unary", dict(dtype=dtn, seed=seed, n=20000 if tier == "quick" else 2000000)))
        n, reps, nsh = (4000, 1, 2) if tier == "quick" else (20000, 8, 5)
        for s in range(nsh):
            t.append(("sums", dict(dtype=dtn, seed=seed, shard=s, n=n, reps=reps)))
            t.append(("fma", dict(dtype=dtn, seed=seed, shard=s, n=n * 2, reps=reps)))
    return t


def replay(site, witness, rec):
    from functional_algorithms import apmath_algorithms, utils

    dt = getattr(numpy, witness["dtype"])
    ctx = utils.NumpyContext(dt)
    ops = [numpy.array([unfl(v, dt)], dtype=dt) for v in witness.get("operands", [])]
    if len(ops) == 3 and "fma" in site:
        k = exact.units_exp(dt)
        ux, uy, uz = (exact.to_units(v) for v in ops)
        ex = ux * uy + uz * (1 << (-k))
        for v in FMA_VARIANTS:
            with numpy.errstate(all="ignore"):
                r = apmath_algorithms.fma_real(ctx, *ops, functional=True, **v)
            judge(rec, "fma_real", f"{v['algorithm']}:fo={int(v['fix_overflow'])}:pz={int(v['possibly_zero_z'])}", dt, r, ex, 2 * k, numpy.ones(1, dtype=bool), 1, None, ops)
