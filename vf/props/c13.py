"""C13 — number-representation conversions are lossless and mutually inverse.

Contracts on the real converters (utils.float2bin/bin2float, float2fraction/fraction2float, float2mpf/mpf2float,
mpf2expansion/expansion2mpf, mpf2multiword/multiword2mpf); oracle = exact value of the float from vf.exact
(Python's own float -> Fraction), an independent 10-line parser of the binary string, man*2^exp of the mpf.
"""
from fractions import Fraction as F
import numpy
import mpmath

from .. import exact, gen, contracts
from ..core import unfl

LEVEL = "exploration"
RULE = ("float16: every one of the 65536 bit patterns; float32/float64: every biased exponent and every subnormal binade x "
        "{min,max,single-bit,random} significands + powers of two + extremes + random bit patterns; each value is pushed through "
        "bin / fraction / mpf / expansion / multiword (same dtype and narrower word dtype) and back. distinct_nontrivial = "
        "distinct (dtype, converter, exponent-class, significand-class) tuples of finite non-zero inputs observed")
ASSUME = ["Python's float->Fraction conversion and numpy bit views are exact (they define the reference value)",
          "mpmath mpf objects faithfully expose (sign, man, exp)"]
REQUIRE = ["evaluations", "contract:utils.float2bin:evaluated", "contract:utils.bin2float:evaluated",
           "contract:utils.float2fraction:evaluated", "contract:utils.fraction2float:evaluated",
           "contract:utils.float2mpf:evaluated", "contract:utils.mpf2float:evaluated",
           "contract:utils.mpf2expansion:evaluated", "contract:utils.mpf2multiword:evaluated"]


def EXHAUSTIVE(tier):
    return "all 65536 float16 bit patterns through bin, fraction, mpf, expansion and multiword conversions"


def parse_bin(s):
    """independent parser of the repository's binary string: [-]1[.bits]p[+-]e | 0 | -0 | [-]inf | nan -> (kind, Fraction, negative?)"""
    neg = s.startswith("-")
    t = s[1:] if neg else s
    if t == "nan":
        return ("nan", None, neg)
    if t == "inf":
        return ("inf", None, neg)
    if t in ("0", "0.0"):
        return ("num", F(0), neg)
    mant, _, e = t.partition("p")
    ip, _, fp = mant.partition(".")
    v = F(int(ip, 2))
    for i, c in enumerate(fp):
        if c == "1":
            v += F(1, 2 ** (i + 1))
        elif c != "0":
            raise ValueError(s)
    v *= F(2) ** int(e)
    return ("num", -v if neg else v, neg)


def mpf_value(m):
    sign, man, exp, bc = m._mpf_
    return F(int(man) * (-1 if sign else 1)) * F(2) ** int(exp)


def classify(x):
    f = exact.fmt(x.dtype)
    b = exact.bits_of(x) & (f.sign_bit - 1)
    e = b >> (f.p - 1)
    s = b & ((1 << (f.p - 1)) - 1)
    ec = "sub" if e == 0 else ("top" if e >= (1 << f.ebits) - 2 else ("low" if e < 4 else ("one" if e == f.bias else "mid")))
    sc = "0" if s == 0 else ("max" if s == (1 << (f.p - 1)) - 1 else ("1bit" if s & (s - 1) == 0 else "gen"))
    return ec, sc


def same_bits(a, b):
    return a.dtype == b.dtype and (exact.bits_of(a) == exact.bits_of(b) or (numpy.isnan(a) and numpy.isnan(b)))


def wit(x, **kw):
    d = dict(dtype=x.dtype.name, x=x, bits=hex(exact.bits_of(x)))
    d.update(kw)
    return d


LOW_PRECISIONS = (4, 11, 24, 40)
_LOW = {}


def low_context(prec):
    c = _LOW.get(prec)
    if c is None:
        c = _LOW[prec] = mpmath.mp.clone()
        c.prec = prec
    return c


def check_value(x, rec, utils, word_dtypes=()):
    """push one float through every converter; the contracts installed by install() judge each call"""
    dt = type(x)
    mp = mpmath.mp
    isnan = bool(numpy.isnan(x))
    fin = bool(numpy.isfinite(x))
    rec.count("evaluations")
    # ---- binary string
    try:
        s = utils.float2bin(x)
        y = utils.bin2float(dt, s)
        if not isinstance(y, numpy.floating):
            y = dt(y)
        if not same_bits(x, y):
            rec.violation("bin-roundtrip" + ("-negzero" if (x == 0 and numpy.signbit(x)) else ""), wit(x, string=s, back=y))
    except Exception as e:
        rec.violation("bin-exception", wit(x, exc=f"{type(e).__name__}: {e}"[:200]))
    if isnan:
        # NaN: only formats that can express it
        try:
            m = utils.float2mpf(mp, x)
            if not mp.isnan(m) or not numpy.isnan(utils.mpf2float(dt, m)):
                rec.violation("mpf-nan", wit(x))
        except Exception as e:
            rec.violation("mpf-exception", wit(x, exc=f"{type(e).__name__}: {e}"[:200]))
        return
    # ---- the float -> mpf conversion is exact by construction whatever the working precision of the context it is given
    for lp in LOW_PRECISIONS:
        lctx = low_context(lp)
        try:
            m = utils.float2mpf(lctx, x)  # judged by the float2mpf contract (exact value)
            y = utils.mpf2float(dt, m)
            rec.count("low-precision-context:roundtrips")
            ok = (y == x and type(y) is dt) if (fin and x == 0) else same_bits(x, y)
            if not ok:
                rec.violation("mpf-roundtrip:low-precision-context", wit(x, back=y, context_precision=lp))
        except Exception as e:
            rec.violation("mpf-exception:low-precision-context", wit(x, context_precision=lp, exc=f"{type(e).__name__}: {e}"[:200]))
    # ---- the dispatching number2float: a float converted to its own type is itself (bit for bit, -0.0, inf and NaN included); to a wider type its value
    for tdt in (numpy.float16, numpy.float32, numpy.float64):
        if numpy.finfo(tdt).bits < numpy.finfo(dt).bits:
            continue  # narrowing rounds: C15's business
        rec.count("number2float:judged")
        try:
            y = utils.number2float(tdt, x)
            ok = type(y) is tdt and (same_bits(tdt(x), y) if not isnan else bool(numpy.isnan(y)))
            if not ok:
                rec.violation("number2float-identity", wit(x, target=tdt.__name__, back=y))
            if dt is numpy.float64 and tdt is numpy.float64 and fin:
                y2 = utils.number2float(tdt, float(x))
                if not same_bits(x, y2):
                    rec.violation("number2float-identity", wit(x, target="float64 from Python float", back=y2))
        except Exception as e:
            rec.violation("number2float-exception", wit(x, target=tdt.__name__, exc=f"{type(e).__name__}: {e}"[:200]))
    # ---- fraction (finite only: a Fraction cannot express inf)
    if fin:
        try:
            q = utils.float2fraction(x)
            y = utils.fraction2float(dt, q)
            if not (y == x and type(y) is dt):
                rec.violation("fraction-roundtrip", wit(x, q=str(q), back=y))
        except Exception as e:
            rec.violation("fraction-exception", wit(x, exc=f"{type(e).__name__}: {e}"[:200]))
    # ---- mpf
    try:
        m = utils.float2mpf(mp, x)
        y = utils.mpf2float(dt, m)
        if fin:
            ok = (y == x and type(y) is dt) if x == 0 else same_bits(x, y)  # mpf has a single zero
        else:
            ok = same_bits(x, y)
        if not ok:
            rec.violation("mpf-roundtrip", wit(x, back=y))
        if fin:
            for wdt in (dt,) + tuple(word_dtypes):
                wf = exact.fmt(wdt)
                q = exact.frac(x)
                # domain: exactly representable as a sum of wdt floats (in range, multiple of wdt's smallest subnormal)
                in_dom = abs(q) <= wf.max and (q / wf.sub).denominator == 1
                if not in_dom:
                    rec.count("expansion:out_of_domain")
                    continue
                ex_ = utils.mpf2expansion(wdt, m)
                with mp.workprec(max(mp.prec, 1200)):
                    m2 = utils.expansion2mpf(mp, ex_)
                    if mpf_value(m2) != q:
                        rec.violation("expansion-roundtrip", wit(x, word=numpy.dtype(wdt).name, expansion=[v for v in ex_]))
                    # expansions as the arithmetic produces them: zero words anywhere (functional variants pad, cancellation leaves interior zeros)
                    if len(ex_) >= 1 and x != 0:
                        nzw = [w_ for w_ in ex_ if w_ != 0]
                        for padded in ([wdt(0)] + nzw, nzw[:1] + [wdt(0)] + nzw[1:] + [wdt(0)], nzw[:1] + [wdt(0), wdt(-0.0)] + nzw[1:]):
                            rec.count("expansion2mpf:zero-words")
                            try:
                                m2b = utils.expansion2mpf(mp, list(padded))
                                if mpf_value(m2b) != q:
                                    rec.violation("expansion2mpf-with-zero-words", wit(x, word=numpy.dtype(wdt).name, expansion=list(padded)))
                                    break
                            except Exception as e:
                                rec.violation("expansion2mpf-exception", wit(x, word=numpy.dtype(wdt).name, expansion=list(padded), exc=f"{type(e).__name__}: {e}"[:200]))
                                break
                # the other routes into an expansion: from the float itself (NumPy scalar and, for float64 values, the equal Python float), from its
                # exact fraction, and through the dispatching number2expansion; every word has the word dtype and the words sum to the value exactly
                routes = [("float2expansion", lambda: utils.float2expansion(wdt, x)), ("number2expansion:float", lambda: utils.number2expansion(wdt, x)),
                          ("fraction2expansion", lambda: utils.fraction2expansion(wdt, q, length=64)), ("number2expansion:fraction", lambda: utils.number2expansion(wdt, q, length=64)),
                          ("number2expansion:mpf", lambda: utils.number2expansion(wdt, m))]
                if dt is numpy.float64:
                    routes += [("float2expansion:pyfloat", lambda: utils.float2expansion(wdt, float(x))), ("number2expansion:pyfloat", lambda: utils.number2expansion(wdt, float(x)))]
                for rname, call in routes:
                    rec.count("expansion-routes:judged")
                    try:
                        words = call()
                    except Exception as e:
                        rec.violation("expansion-route-exception:" + rname.split(":")[0], wit(x, word=numpy.dtype(wdt).name, route=rname, exc=f"{type(e).__name__}: {e}"[:200]))
                        continue
                    tot = sum((exact.frac(w) for w in words), exact.frac(wdt(0)))
                    if tot != q or not all(type(w) is wdt for w in words):
                        rec.violation("expansion-route-value:" + rname.split(":")[0], wit(x, word=numpy.dtype(wdt).name, route=rname, expansion=[v for v in words]))
                if True:  # zero included: mpf2multiword(0) is [] and must convert back
                    mw = utils.mpf2multiword(wdt, m)
                    with mp.workprec(max(mp.prec, 1200)):
                        m3 = utils.multiword2mpf(mp, mw)
                        if mpf_value(m3) != q:
                            rec.violation("multiword-roundtrip", wit(x, word=numpy.dtype(wdt).name, multiword=[v for v in mw]))
                ec, sc = classify(x)
                if x != 0:
                    rec.cls(dt.__name__, "exp+mw", numpy.dtype(wdt).name, ec, sc)
    except Exception as e:
        rec.violation("mpf-exception", wit(x, exc=f"{type(e).__name__}: {e}"[:200]))
    if fin and x != 0:
        ec, sc = classify(x)
        rec.cls(dt.__name__, "bin+frac+mpf", ec, sc, bool(x < 0))


def install(rec, utils):
    """contracts on the real converters: the intermediate object has exactly the value of the float"""

    def post_float2bin(a, k, s):
        x = a[0]
        kind, v, neg = parse_bin(s)
        if numpy.isnan(x):
            ok = kind == "nan"
        elif numpy.isinf(x):
            ok = kind == "inf" and neg == bool(x < 0)
        else:
            ok = kind == "num" and v == exact.frac(x)
        if not ok:
            rec.violation("float2bin-value", wit(x, string=s))

    def post_bin2float(a, k, r):
        dt, s = a[0], a[1]
        kind, v, neg = parse_bin(s)
        r = numpy.asarray(r)[()]
        if kind == "nan":
            ok = bool(numpy.isnan(r))
        elif kind == "inf":
            ok = bool(numpy.isinf(r)) and bool(r < 0) == neg
        else:
            if not exact.is_representable(v, dt):
                raise contracts.Skip("not-representable")
            ok = bool(numpy.isfinite(r)) and exact.frac(r) == v
        if not ok:
            rec.violation("bin2float-value", dict(dtype=numpy.dtype(dt).name, string=s, result=r))

    def post_float2fraction(a, k, q):
        x = a[0]
        if not isinstance(x, numpy.floating) or not numpy.isfinite(x):
            raise contracts.Skip("nonfloat-or-nonfinite")
        if q != exact.frac(x):
            rec.violation("float2fraction-value", wit(x, q=str(q)))

    def post_fraction2float(a, k, r):
        dt, q = a[0], a[1]
        if len(a) > 2 or k:
            raise contracts.Skip("custom-prec")
        if not exact.is_representable(q, dt):
            raise contracts.Skip("not-representable")  # rounding of fractions is C15's business
        if not (numpy.isfinite(r) and exact.frac(r) == q):
            rec.violation("fraction2float-value", dict(dtype=numpy.dtype(dt).name, q=str(q), result=r))

    def post_float2mpf(a, k, m):
        x = a[1]
        if not isinstance(x, numpy.floating):
            raise contracts.Skip("nonfloat")
        if numpy.isfinite(x):
            if mpf_value(m) != exact.frac(x):
                rec.violation("float2mpf-value", wit(x, mpf=str(m._mpf_)))
        elif numpy.isnan(x):
            if not m.context.isnan(m):
                rec.violation("float2mpf-value", wit(x, mpf=str(m._mpf_)))
        else:
            if not (m.context.isinf(m) and bool(m < 0) == bool(x < 0)):
                rec.violation("float2mpf-value", wit(x, mpf=str(m._mpf_)))

    def post_mpf2float(a, k, r):
        dt, m = a[0], a[1]
        if isinstance(m, list) or k.get("flush_subnormals") or k.get("prec") is not None or k.get("rounding") is not None:
            raise contracts.Skip("options")
        if not m.context.isfinite(m):
            raise contracts.Skip("nonfinite")
        q = mpf_value(m)
        if not exact.is_representable(q, dt):
            raise contracts.Skip("not-representable")  # rounding: C15
        if not (numpy.isfinite(r) and exact.frac(r) == q and type(r) is dt):
            rec.violation("mpf2float-value", dict(dtype=numpy.dtype(dt).name, mpf=str(m._mpf_), result=r))

    def post_mpf2expansion(a, k, lst):
        dt, m = a[0], a[1]
        if isinstance(m, list) or k.get("length") is not None or k.get("base") is not None or len(a) > 2:
            raise contracts.Skip("options")
        if not m.context.isfinite(m):
            raise contracts.Skip("nonfinite")
        q = mpf_value(m)
        wf = exact.fmt(dt)
        if not (abs(q) <= wf.max and (q / wf.sub).denominator == 1):
            raise contracts.Skip("not-expressible")
        if sum((exact.frac(v) for v in lst), F(0)) != q or not all(type(v) is dt for v in lst):
            rec.violation("mpf2expansion-value", dict(dtype=numpy.dtype(dt).name, mpf=str(m._mpf_), expansion=list(lst)))

    def post_mpf2multiword(a, k, lst):
        dt, m = a[0], a[1]
        if k or len(a) > 2:
            raise contracts.Skip("options")
        q = mpf_value(m)
        wf = exact.fmt(dt)
        if q == 0 or not (abs(q) <= wf.max and (q / wf.sub).denominator == 1):
            raise contracts.Skip("not-expressible")
        if sum((exact.frac(v) for v in lst), F(0)) != q:
            rec.violation("mpf2multiword-value", dict(dtype=numpy.dtype(dt).name, mpf=str(m._mpf_), multiword=list(lst)))

    contracts.attach(utils, "float2bin", post_float2bin, rec, site="utils.float2bin")
    contracts.attach(utils, "bin2float", post_bin2float, rec, site="utils.bin2float")
    contracts.attach(utils, "float2fraction", post_float2fraction, rec, site="utils.float2fraction")
    contracts.attach(utils, "fraction2float", post_fraction2float, rec, site="utils.fraction2float")
    contracts.attach(utils, "float2mpf", post_float2mpf, rec, site="utils.float2mpf")
    contracts.attach(utils, "mpf2float", post_mpf2float, rec, site="utils.mpf2float")
    contracts.attach(utils, "mpf2expansion", post_mpf2expansion, rec, site="utils.mpf2expansion")
    contracts.attach(utils, "mpf2multiword", post_mpf2multiword, rec, site="utils.mpf2multiword")


WORDS = {numpy.float16: (), numpy.float32: (numpy.float16,), numpy.float64: (numpy.float32, numpy.float16)}


def values_for(params):
    dt = getattr(numpy, params["dtype"])
    rng = gen.rng_for(params["seed"], 13, params["shard"])
    if params["kind"] == "all16":
        a = exact.all_values(numpy.float16)
        return a[params["shard"]:: params["nshards"]]
    if params["kind"] == "structured":
        a = numpy.concatenate([gen.all_exponents_structured(rng, dt), gen.powers_of_two(dt, k=2), gen.neighbours(gen.specials(dt, nan=True), dt, k=2),
                               numpy.array([numpy.nan], dtype=dt)])
        return a[params["shard"]:: params["nshards"]]
    if params["kind"] == "sparse":
        # significands with two to four set bits at arbitrary distances (long runs of zero bits between the words of an expansion / multiword),
        # over the whole exponent range including subnormals
        f = exact.fmt(dt)
        out = []
        for _ in range(params["n"]):
            nb = int(rng.integers(2, 5))
            if rng.random() < 0.6:
                # every set bit inside the range of the narrowest word type (float16: 2^-24 .. 2^15), so that the value is in the domain of the
                # narrower-word conversions
                e = int(rng.integers(-20, 16))
                lo = max(0, f.p - 1 - (e + 24))
                pos = sorted(set(int(v) for v in rng.integers(lo, f.p, size=nb)) | {f.p - 1})
            else:
                pos = sorted(set(int(v) for v in rng.integers(0, f.p, size=nb)) | {f.p - 1})
                e = int(rng.integers(f.emin - 2, f.emax + 1))
            man = sum(1 << q_ for q_ in pos)
            with numpy.errstate(all="ignore"):
                v = dt(numpy.ldexp(float(man), e - f.p + 1)) if f.bits <= 64 else None
            out.append(v if rng.random() < 0.5 else -v)
        return numpy.array(out, dtype=dt)
    if params["kind"] == "random":
        return gen.random_bits(rng, dt, params["n"], nan=True)
    raise ValueError(params)


def task_values(params, rec):
    from functional_algorithms import utils

    install(rec, utils)
    dt = getattr(numpy, params["dtype"])
    vals = values_for(params)
    with mpmath.mp.workprec(1200):  # wide enough that mpf sums of words are exact
        for x in vals:
            check_value(dt(x), rec, utils, WORDS[dt])
    for x in vals[:2]:
        rec.sample(dict(dtype=params["dtype"], x=x, bin=utils.float2bin.__vf_orig__(dt(x)) if hasattr(utils.float2bin, "__vf_orig__") else None))
    contracts.detach_all()


TASKS = {"values": task_values}


def plan(tier, seed):
    t = []
    for s in range(8):
        t.append(("values", dict(kind="all16", dtype="float16", shard=s, nshards=8, seed=seed)))
    for dtn in ("float32", "float64"):
        for s in range(4):
            t.append(("values", dict(kind="structured", dtype=dtn, shard=s, nshards=4, seed=seed)))
        for s in range(2):
            t.append(("values", dict(kind="sparse", dtype=dtn, shard=s, nshards=2, n=1500 if tier == "quick" else 100000, seed=seed)))
        nrand, nsh = (24000, 6) if tier == "quick" else (4000000, 16)
        for s in range(nsh):
            t.append(("values", dict(kind="random", dtype=dtn, shard=s, nshards=nsh, n=nrand // nsh, seed=seed)))
    return t


def replay(site, witness, rec):
    from functional_algorithms import utils

    install(rec, utils)
    if "x" in witness and "dtype" in witness:
        dt = getattr(numpy, witness["dtype"])
        x = exact.from_bits(dt, int(witness["bits"], 16)) if "bits" in witness else unfl(witness["x"], witness["dtype"])
        with mpmath.mp.workprec(1200):
            check_value(dt(x), rec, utils, WORDS[dt])
    contracts.detach_all()
