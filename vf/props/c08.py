"""C08 — static types equal run-time types.

Monitors: (1) the emitted NumPy code's own debug=1 assertions (AssertionError from generated code is the event) and the dtype of
the returned value vs the declared annotation; (2) an independent scalar interpreter records the run-time dtype NumPy produces at
*every* node (not only referenced ones) and compares it with get_type(); (3) get_type()/is_complex must not refuse a graph the
NumPy target accepts.
"""
import random
import warnings

import numpy

from .. import graph

LEVEL = "exploration"
RULE = ("shipped NumPy signatures (all trace_arguments) + generated graphs: 1-3 symbols with dtypes drawn independently from float16/32/64, complex64/128; constants "
        "of every Python/NumPy value type with 'like' chains (constant like select like ...); arithmetic, elementary functions, comparisons feeding selects, "
        "abs/real/imag/conjugate/complex, min/max, hypot/atan2, sign, upcast/downcast; each executed with debug=1 on a few hostile scalar inputs. "
        "distinct_nontrivial = distinct (kind, operand static types, result static type) triples of nodes whose operands have different static types or whose "
        "result type differs from its first operand's")
ASSUME = ["NumPy 2 scalar promotion rules are the run-time truth", "values do not matter for dtypes except where a target idiom is value dependent (Python max/min)"]
REQUIRE = ["evaluations", "graphs:executed", "nodes:compared", "shipped:executed", "asserts:armed"]

DTYPES = ["float16", "float32", "float64", "complex64", "complex128"]
FLOATS = ["float16", "float32", "float64"]
VALS = [0.0, -0.0, 0.5, -1.0, 1.0, 2.5, 1e-40, 1e30, numpy.inf, -numpy.inf]

UNARY_ANY = ["negative", "positive", "square", "sqrt", "exp", "log", "log1p", "sin", "cos", "conjugate", "absolute", "real", "imag", "asinh", "tanh", "sinh", "cosh", "expm1", "log2", "log10", "tan", "atan", "acos", "asin", "acosh", "atanh"]
UNARY_REAL = ["sign", "floor", "ceil"]
BINARY_ANY = ["add", "subtract", "multiply", "divide"]
BINARY_REAL = ["maximum", "minimum", "hypot", "atan2", "copysign"]
CMP = ["lt", "le", "gt", "ge", "eq", "ne"]
CONSTS = [0, 1, 2, -1, 0.5, 2.0, True, numpy.float32(1.5), numpy.float64(0.25), numpy.float16(2), numpy.int32(3), numpy.int64(2), "pi", "eps", "largest", "smallest", "posinf", 1 + 2j, numpy.complex64(1j)]


def np_dtype_of_static(t):
    # float128 / complex256 (upcast of a 64-bit value, numpy.longdouble) are known here only: the expression interpreters of the other checks do not model them
    return numpy.dtype({"float128": numpy.longdouble, "complex256": numpy.clongdouble}.get(str(t)) or graph.NPDT[str(t)])


def gen_program(rnd, nsym):
    """program = list of steps; each step (op, args...) refers to earlier steps by index; symbols are steps 0..nsym-1"""
    prog = [("sym", i) for i in range(nsym)]
    n = rnd.randint(2, 14)
    for _ in range(n):
        c = rnd.random()
        k = len(prog)
        if c < 0.16:
            prog.append(("const", rnd.choice(CONSTS), rnd.randrange(k)))
        elif c < 0.42:
            prog.append(("un", rnd.choice(UNARY_ANY + UNARY_REAL), rnd.randrange(k)))
        elif c < 0.72:
            prog.append(("bin", rnd.choice(BINARY_ANY + BINARY_ANY + BINARY_REAL), rnd.randrange(k), rnd.randrange(k)))
        elif c < 0.84:
            prog.append(("select", rnd.choice(CMP), rnd.randrange(k), rnd.randrange(k), rnd.randrange(k), rnd.randrange(k)))
        elif c < 0.9:
            prog.append(("complex", rnd.randrange(k), rnd.randrange(k)))
        else:
            prog.append(("cast", rnd.choice(["upcast", "downcast"]), rnd.randrange(k)))
    return prog


UNSIZED_CONSTANTS = True
rnd_upcast64_off = False  # upcast(float64) -> float128 (numpy.longdouble) is printable and is judged; upcast(complex128) is refused by the printer


def build(ctx, prog, syms):
    """returns list of nodes (None where the step is not well-typed for its kind and was replaced by its first operand)"""
    nodes = []
    for st in prog:
        op = st[0]
        try:
            if op == "sym":
                e = syms[st[1]]
            elif op == "const":
                v = st[1]
                like = nodes[st[2]]
                if isinstance(v, (complex, numpy.complexfloating)) and not like.get_type().is_complex:
                    v = 2.0
                if isinstance(v, (bool, numpy.bool_)):
                    e = ctx.constant(1.0, like)
                elif UNSIZED_CONSTANTS and isinstance(v, (int, float)) and not isinstance(v, bool) and (st[2] % 9 == 4):
                    e = ctx.constant(v)  # no like-operand: typed by the context's unsized float / integer (KF-C08-unsized-constant)
                else:
                    e = ctx.constant(v, like)
            elif op == "un":
                a = nodes[st[2]]
                cplx = a.get_type().is_complex
                kind = st[1]
                if cplx and kind in UNARY_REAL + ["atan", "acos", "asin", "acosh", "atanh", "tan", "tanh", "sinh", "cosh", "expm1", "log2", "log10", "asinh"]:
                    kind = "negative"
                if not cplx and kind in ("real", "imag", "conjugate"):
                    kind = "absolute"
                e = getattr(ctx, kind)(a)
            elif op == "bin":
                a, b = nodes[st[2]], nodes[st[3]]
                kind = st[1]
                if kind in BINARY_REAL and (a.get_type().is_complex or b.get_type().is_complex):
                    kind = "add"
                e = getattr(ctx, kind)(a, b)
            elif op == "select":
                a, b, x, y = (nodes[i] for i in st[2:6])
                if a.get_type().is_complex or b.get_type().is_complex:
                    a, b = ctx.absolute(a), ctx.absolute(b)
                e = ctx.select(getattr(ctx, st[1])(a, b), x, y)
            elif op == "complex":
                a, b = nodes[st[1]], nodes[st[2]]
                ta, tb = a.get_type(), b.get_type()
                mixed_ok = (not ta.is_complex and not tb.is_complex and ta.kind == "float" and tb.kind == "float" and (ta.bits, tb.bits) == (32, 64))  # the one mixed pair make_complex accepts
                if ta.is_complex or tb.is_complex or not (ta.is_same(tb) or mixed_ok):
                    e = ctx.add(a, b)
                else:
                    e = ctx.complex(a, b)
            elif op == "cast":
                a = nodes[st[2]]
                t = a.get_type()
                if (st[1] == "upcast" and (t.bits == 128 or (t.bits == 64 and not t.is_complex and rnd_upcast64_off))) or (st[1] == "downcast" and t.bits in (16, 64) and t.is_complex) or (st[1] == "downcast" and t.bits == 16):
                    e = ctx.negative(a)
                else:
                    e = getattr(ctx, st[1])(a)
            else:
                raise ValueError(op)
        except (NotImplementedError, AssertionError, AttributeError, TypeError, KeyError, ValueError):
            e = nodes[-1]
        nodes.append(e)
    return nodes


def runtime_dtypes(root, env):
    """independent evaluation with NumPy scalars; returns {id(node): (node, runtime dtype)} for every node"""
    from functional_algorithms import Expr

    memo = {}
    out = {}

    def mkc(a, b):
        if a.dtype == numpy.float32 and b.dtype == numpy.float32:
            return numpy.complex64(complex(a, b))
        if a.dtype == numpy.float64 and b.dtype == numpy.float64:
            return numpy.complex128(complex(a, b))
        if a.dtype == numpy.float32 and b.dtype == numpy.float64:
            return numpy.complex128(complex(a, b))  # the one mixed pair utils.make_complex accepts (it tests the imaginary part's dtype twice)
        raise NotImplementedError("make_complex needs equal float32/float64 parts")

    def ev(e):
        k = id(e)
        if k in memo:
            return memo[k]
        kind = e.kind
        if kind == "symbol":
            r = env[k]
        elif kind == "constant":
            value, like = e.operands
            dt = graph.NPDT[str(like.get_type())]
            r = graph.const_value(value, dt)
        elif kind == "select":
            c, a, b = (ev(o) for o in e.operands)
            r = numpy.where(c, a, b)[()]
        elif kind == "complex":
            r = mkc(*(ev(o) for o in e.operands))
        elif kind == "real":
            r = ev(e.operands[0]).real
        elif kind == "imag":
            r = ev(e.operands[0]).imag
        elif kind == "conjugate":
            r = ev(e.operands[0]).conjugate()
        elif kind == "upcast":
            a = ev(e.operands[0])
            r = {numpy.dtype("float16"): numpy.float32, numpy.dtype("float32"): numpy.float64, numpy.dtype("complex64"): numpy.complex128, numpy.dtype("float64"): numpy.longdouble}[a.dtype](a)
        elif kind == "downcast":
            a = ev(e.operands[0])
            r = {numpy.dtype("float64"): numpy.float32, numpy.dtype("float32"): numpy.float16, numpy.dtype("complex128"): numpy.complex64}[a.dtype](a)
        elif kind in ("maximum", "minimum"):
            a, b = ev(e.operands[0]), ev(e.operands[1])
            r = (max if kind == "maximum" else min)(a, b)  # the target's idiom: Python max/min returns one of its operands
        elif kind in graph.UN:
            r = graph.UN[kind](ev(e.operands[0]))
        elif kind in graph.BIN:
            r = graph.BIN[kind](ev(e.operands[0]), ev(e.operands[1]))
        else:
            raise NotImplementedError(kind)
        memo[k] = r
        out[k] = (e, numpy.asarray(r).dtype)
        return r

    with warnings.catch_warnings():
        warnings.simplefilter("ignore")
        with numpy.errstate(all="ignore"):
            ev(root)
    return out


def describe(e):
    try:
        return " ".join(str(e).split())[:300]
    except Exception:
        return f"<{e.kind}>"


def check_graph(rec, g, dts, fn_name, values_rnd, shipped=False):
    """g: apply graph (already rewritten for the NumPy target)"""
    import functional_algorithms as fa

    t = fa.targets.numpy
    root = g.operands[-1]
    params = g.operands[1:-1]
    # (3) static typing must not refuse what the target prints
    try:
        src = g.tostring(t, debug=1)
    except NotImplementedError:
        rec.count("refused:printer")
        return
    except (KeyError, AssertionError, ValueError) as e:
        # printer crashes are C05's business
        rec.count("refused:printer:" + type(e).__name__)
        return
    rec.count("asserts:armed", src.count("assert "))
    try:
        f = t.as_function(g, debug=1)
    except Exception as e:
        rec.violation("emitted-code-does-not-load", dict(function=fn_name, dtypes=dts, exc=f"{type(e).__name__}: {e}"[:300]))
        return
    declared = root.get_type()
    for trial in range(3):
        args = []
        for dtn in dts:
            dt = getattr(numpy, dtn)
            if numpy.dtype(dt).kind == "c":
                args.append(dt(complex(values_rnd.choice(VALS), values_rnd.choice(VALS))))
            else:
                with numpy.errstate(all="ignore"):
                    args.append(dt(values_rnd.choice(VALS)))
        rec.count("evaluations")
        # (2) every node: run-time dtype NumPy produces vs static type; only root causes are reported (a node whose operands all agreed)
        env = {id(p): a for p, a in zip(params, args)}
        node_mismatch = False
        try:
            rt = runtime_dtypes(root, env)
        except (NotImplementedError, KeyError, TypeError, ValueError, AttributeError, OverflowError, ZeroDivisionError):
            rec.count("interp:refused")
            break  # without the per-node run-time dtypes an assertion of the emitted code could not be attributed
        agree = {}
        for k, (e, rdt) in rt.items():
            try:
                st = e.get_type()
                sdt = np_dtype_of_static(st)
            except NotImplementedError as ex:
                rec.violation("get_type-refuses-printed-node", dict(kind=e.kind, exc=str(ex)[:200], graph=describe(e)))
                continue
            except KeyError:
                continue
            rec.count("nodes:compared")
            agree[k] = sdt == rdt
            if sdt != rdt:
                node_mismatch = True
                if all(agree.get(id(o), True) for o in e.operands if hasattr(o, "kind")):
                    ots = [str(o.get_type()) for o in e.operands if hasattr(o, "get_type")]
                    rec.violation(f"static-vs-runtime:{e.kind}", dict(kind=e.kind, operand_types=ots, static=str(st), runtime=str(rdt), node=describe(e), function=fn_name, dtypes=dts,
                                                                      unsized_operands_from_likeless_constants=unsized_from_likeless(e)))
            if e.kind not in ("symbol", "constant"):
                ots = tuple(str(o.get_type()) for o in e.operands if hasattr(o, "get_type"))
                if len(set(ots)) > 1 or (ots and str(st) != ots[0]):
                    rec.cls(e.kind, ots, str(st))
        # (1) the emitted code's own assertions and the declared result type
        with warnings.catch_warnings():
            warnings.simplefilter("ignore")
            with numpy.errstate(all="ignore"):
                try:
                    r = f(*args)
                    rec.count("shipped:executed" if shipped else "graphs:executed")
                    rdt = numpy.asarray(r).dtype
                    if declared.kind != "list" and rdt != np_dtype_of_static(declared) and not node_mismatch:
                        rec.violation("result-dtype-differs-from-declared", dict(function=fn_name, dtypes=dts, declared=str(declared), runtime=str(rdt), graph=describe(root)))
                except AssertionError as e:
                    if node_mismatch:
                        rec.count("asserts:fired-and-attributed-to-node-mismatch")
                    else:
                        rec.violation("emitted-debug-assertion-fires", dict(function=fn_name, dtypes=dts, args=args, message=str(e)[:200], graph=describe(root)))
                    break
                except (NotImplementedError, ZeroDivisionError, OverflowError, ValueError, TypeError, AttributeError, NameError, SyntaxError) as e:
                    # loading/executing problems of emitted code are C05's business
                    rec.count("emitted:runtime-refusal:" + type(e).__name__)
                    break
        if not rt:
            break
        # is_complex must agree with get_type and must not refuse
        for k, (e, rdt) in list(rt.items())[:40]:
            try:
                ic = e.is_complex
                if e.kind in ("maximum", "minimum") and any(hasattr(o, "get_type") and o.get_type().is_complex for o in e.operands):
                    rec.count("is_complex:ill-typed-ordering-of-complex")  # an ordering of complex values: no dtype claim can be made about it
                    continue
                if bool(ic) != e.get_type().is_complex:
                    rec.violation("is_complex-disagrees-with-get_type", dict(kind=e.kind, node=describe(e)))
            except NotImplementedError:
                rec.count("is_complex:refused:" + e.kind)


def unsized_from_likeless(e):
    """True when e has operands of an unsized type (float / integer / complex without a width) and every leaf of those operands is a constant attached to one
    of the context's implicit symbols (_float_value, _integer_value, ...), i.e. a constant that was created without a like-operand"""
    found = False
    for o in e.operands:
        if not hasattr(o, "get_type"):
            continue
        t = o.get_type()
        if t.kind in ("float", "integer", "complex") and t.bits is None:
            found = True
            for n in graph.walk(o):
                if n.kind == "symbol" and not str(n.operands[0]).endswith("_value"):
                    return False
                if n.kind == "constant" and hasattr(n.operands[1], "kind") and n.operands[1].kind == "symbol" and not str(n.operands[1].operands[0]).endswith("_value"):
                    return False
    return found


def task_generated(params, rec):
    import functional_algorithms as fa
    from functional_algorithms import rewrite

    rnd = random.Random(f"c08-{params['seed']}-{params['shard']}")
    for i in range(params["n"]):
        nsym = rnd.randint(1, 3)
        mixed = rnd.random() < 0.6
        base = rnd.choice(DTYPES)
        dts = [rnd.choice(DTYPES) if mixed else base for _ in range(nsym)]
        prog = gen_program(rnd, nsym)

        def fn(ctx, *syms):
            return build(ctx, prog, syms)[-1]

        src = "def g%d(ctx, %s):\n    return _fn(ctx, %s)\n" % (i, ", ".join("abc"[:nsym]), ", ".join("abc"[:nsym]))
        ns = dict(_fn=fn)
        exec(src, ns)
        ctx = fa.Context(paths=[fa.algorithms])
        try:
            with warnings.catch_warnings():
                warnings.simplefilter("ignore")
                g = ctx.trace(ns[f"g{i}"], *[getattr(numpy, d) for d in dts])
                # one program in three is printed without the algebraic rewrite: the raw node kinds (ge, gt, ne, x*1, select(True, ..) ...) that the
                # rewriter would canonicalise away have static types too
                if i % 3 == 2:
                    g = g.rewrite(fa.targets.numpy)
                    rec.count("programs:without-algebraic-rewrite")
                else:
                    g = g.rewrite(fa.targets.numpy, rewrite)
        except (NotImplementedError, AssertionError, TypeError, KeyError, AttributeError, ValueError, RuntimeError) as e:
            rec.count("refused:trace:" + type(e).__name__)
            continue
        check_graph(rec, g, dts, f"g{i}", rnd)
        if i < 2:
            rec.sample(dict(dtypes=dts, program=[list(map(str, s)) for s in prog][:12]))


def directed_shapes():
    """small shapes x every dtype assignment x {rewritten, not rewritten}: each kind that has its own typing rule directly on symbols and on the
    result of complex(a, b) / of a cast, where a random program rarely puts it"""
    sh = []
    for k in ("real", "imag", "absolute", "conjugate", "negative", "square", "sqrt", "exp"):
        sh.append((f"{k}(complex(a,b))", lambda ctx, a, b, k=k: getattr(ctx, k)(ctx.complex(a, b)), 2))
        sh.append((f"{k}(complex(a,b))-referenced", lambda ctx, a, b, k=k: (lambda t: t * t + t)(getattr(ctx, k)(ctx.complex(a, b))), 2))
        sh.append((f"{k}(a)", lambda ctx, a, k=k: getattr(ctx, k)(a), 1))
        sh.append((f"{k}(upcast(a))", lambda ctx, a, k=k: getattr(ctx, k)(ctx.upcast(a)), 1))
        sh.append((f"{k}(downcast(a))", lambda ctx, a, k=k: getattr(ctx, k)(ctx.downcast(a)), 1))
    for k in ("add", "multiply", "subtract", "divide", "hypot", "atan2", "pow", "copysign"):
        sh.append((f"{k}(a,b)", lambda ctx, a, b, k=k: getattr(ctx, k)(a, b), 2))
        sh.append((f"{k}(real(complex(a,b)),a)", lambda ctx, a, b, k=k: getattr(ctx, k)(ctx.real(ctx.complex(a, b)), a), 2))
        sh.append((f"{k}(a,const like b)", lambda ctx, a, b, k=k: (lambda t: t * t)(getattr(ctx, k)(a, ctx.constant(1.5, b))), 2))
    sh.append(("select-mixed", lambda ctx, a, b: ctx.select(ctx.absolute(a) < ctx.absolute(b), a, b), 2))
    sh.append(("select-mixed-referenced", lambda ctx, a, b: (lambda t: t + t * t)(ctx.select(ctx.absolute(a) < ctx.absolute(b), a, b)), 2))
    # one literal 'like' operands of different width, each use referenced twice: equal-valued constants of different type must stay separate variables
    for v_ in (2, 0.1, 1.5):
        sh.append((f"literal-{v_}-like-both-widths", lambda ctx, a, b, v_=v_: (lambda ca, cb: ctx.select(a * ca + ca > a, b * cb + cb, b - cb))(ctx.constant(v_, a), ctx.constant(v_, b)), 2))
        sh.append((f"literal-{v_}-like-both-widths-narrow-first", lambda ctx, a, b, v_=v_: (lambda cb, ca: ctx.select(b * cb + cb > b, a * ca + ca, a - ca))(ctx.constant(v_, b), ctx.constant(v_, a)), 2))
    sh.append(("upcast-referenced", lambda ctx, a: (lambda t: t * t + t)(ctx.upcast(a)), 1))
    sh.append(("downcast-referenced", lambda ctx, a: (lambda t: t * t + t)(ctx.downcast(a)), 1))
    sh.append(("downcast(upcast(a)*upcast(a))", lambda ctx, a: ctx.downcast(ctx.upcast(a) * ctx.upcast(a)), 1))
    # one context in which the same operand meets two different partners (a promotion memoised / keyed too coarsely answers the second like the first)
    sh.append(("one-left-operand-two-partners", lambda ctx, a, b, c: (a + b) * (a * c), 3))
    sh.append(("one-left-operand-two-partners-other-order", lambda ctx, a, b, c: (lambda u, t: t - u)(a * c, a + b), 3))
    sh.append(("one-right-operand-two-partners", lambda ctx, a, b, c: (b + a) * (c / a), 3))
    for c in ("eps", "largest", "smallest", "pi", "posinf"):
        sh.append((f"named-constant:{c}", lambda ctx, a, b, c=c: ctx.real(a) * ctx.constant(c, a) + b, 2))
        sh.append((f"named-constant-result:{c}", lambda ctx, a, c=c: ctx.constant(c, a), 1))
    return sh


def task_directed(params, rec):
    import itertools
    import functional_algorithms as fa
    from functional_algorithms import rewrite

    rnd = random.Random(f"c08-directed-{params['seed']}")
    shapes = directed_shapes()[params["shard"]:: params["nshards"]]
    for label, fn, nsym in shapes:
        for dts in itertools.product(DTYPES, repeat=nsym):
            for algebraic in (True, False):
                names = "abc"[:nsym]
                ns = dict(_fn=fn)
                exec("def d(ctx, %s):\n    return _fn(ctx, %s)\n" % (", ".join(names), ", ".join(names)), ns)
                ctx = fa.Context(paths=[fa.algorithms])
                try:
                    with warnings.catch_warnings():
                        warnings.simplefilter("ignore")
                        g = ctx.trace(ns["d"], *[getattr(numpy, d_) for d_ in dts])
                        g = g.rewrite(fa.targets.numpy, rewrite) if algebraic else g.rewrite(fa.targets.numpy)
                except (NotImplementedError, AssertionError, TypeError, KeyError, AttributeError, ValueError, RuntimeError) as e:
                    rec.count("refused:trace:" + type(e).__name__)
                    continue
                rec.count("directed:graphs")
                check_graph(rec, g, list(dts), "d", rnd)


def task_shipped(params, rec):
    import functional_algorithms as fa
    from functional_algorithms import rewrite

    t = fa.targets.numpy
    rnd = random.Random(7)
    keys = [(fn, sig) for fn, sigs in t.trace_arguments.items() for sig in sigs][params["shard"]:: params["nshards"]]
    for fname, sig in keys:
        dts = [s.lstrip(":") for s in sig]
        ctx = fa.Context(paths=[fa.algorithms])
        try:
            with warnings.catch_warnings():
                warnings.simplefilter("ignore")
                g = ctx.trace(getattr(fa.algorithms, fname), *sig).rewrite(t, rewrite)
        except NotImplementedError:
            rec.count("refused:trace:NotImplementedError")
            continue
        for rep in range(6):
            check_graph(rec, g, dts, fname, rnd, shipped=True)


TASKS = {"generated": task_generated, "shipped": task_shipped, "directed": task_directed}


def plan(tier, seed):
    n, nsh = (260, 12) if tier == "quick" else (14000, 14)
    t = [("generated", dict(seed=seed, shard=s, n=n)) for s in range(nsh)]
    t += [("shipped", dict(shard=s, nshards=2)) for s in range(2)]
    t += [("directed", dict(seed=seed, shard=s, nshards=6)) for s in range(6)]
    return t


def replay(site, witness, rec):
    task_generated(dict(seed=0, shard=0, n=300), rec)
