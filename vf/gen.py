"""E3: hostile value generators.  All randomness derives from numpy SeedSequence(seed, shard)."""
import numpy
from .exact import fmt, from_ordinal_arr, ordinal_arr


def rng_for(seed, *path):
    return numpy.random.default_rng(numpy.random.SeedSequence([int(seed) & 0xFFFFFFFF, *[int(p) & 0xFFFFFFFF for p in path]]))


def random_bits(rng, dt, n, nan=False, inf=True):
    """uniform over bit patterns (ULP-uniform = 'log-uniform'); NaNs (and optionally infs) redrawn"""
    f = fmt(dt)
    out = numpy.empty(0, dtype=f.dt)
    while out.size < n:
        b = rng.integers(0, 1 << f.bits, size=int((n - out.size) * 1.1) + 16, dtype=numpy.uint64).astype(f.uint).view(f.dt)
        if not nan:
            b = b[~numpy.isnan(b)]
        if not inf:
            b = b[~numpy.isinf(b)]
        out = numpy.concatenate([out, b])
    return out[:n]


def all_exponents_structured(rng, dt, per_exp_random=3):
    """every biased exponent (all subnormal binades incl.) x {min, max, one-low-bit, one-high-bit, random} significands, both signs"""
    f = fmt(dt)
    pm1 = f.p - 1
    out = []
    for e in range(0, (1 << f.ebits) - 1):
        sigs = {0, (1 << pm1) - 1, 1, 1 << (pm1 - 1), (1 << pm1) - 2}
        for _ in range(per_exp_random):
            sigs.add(int(rng.integers(0, 1 << pm1)))
        for s in sigs:
            out.append((e << pm1) | s)
    # all subnormal binades: leading bit at every position, with min/max/random tails
    for k in range(pm1):
        lead = 1 << k
        tails = {0, lead - 1} | {int(rng.integers(0, lead)) for _ in range(2) if lead > 1}
        for t in tails:
            out.append(lead | t)
    b = numpy.array(sorted(set(out)), dtype=numpy.uint64)
    b = numpy.concatenate([b, b | numpy.uint64(f.sign_bit)])
    return b.astype(f.uint).view(f.dt)


def specials(dt, nan=False):
    f = fmt(dt)
    fi = numpy.finfo(dt)
    t = f.type
    base = [0.0, fi.smallest_subnormal, fi.smallest_normal, fi.eps, fi.epsneg, 0.5, 1.0, 1.5, 2.0, 3.0, fi.max, float(fi.max) / 2,
            numpy.sqrt(t(fi.max)), numpy.sqrt(t(fi.smallest_normal)), numpy.inf, t(fi.smallest_normal) - t(fi.smallest_subnormal)]
    v = []
    for x in base:
        v += [t(x), -t(x)]
    if nan:
        v.append(t(numpy.nan))
    return numpy.array(v, dtype=f.dt)


def neighbours(vals, dt, k=3, finite_only=False):
    """each value with its +-1..k ulp neighbours, both signs kept as given"""
    f = fmt(dt)
    vals = numpy.asarray(vals, dtype=f.dt)
    vals = vals[~numpy.isnan(vals)]
    o = ordinal_arr(vals)
    maxo = f.inf_bits
    outs = []
    for d in range(-k, k + 1):
        oo = numpy.clip(o + d, -maxo, maxo)
        outs.append(oo)
    oo = numpy.unique(numpy.concatenate(outs))
    r = from_ordinal_arr(dt, oo)
    # both zeros
    r = numpy.concatenate([r, numpy.array([-0.0], dtype=f.dt)])
    if finite_only:
        r = r[numpy.isfinite(r)]
    return r


def powers_of_two(dt, k=3):
    f = fmt(dt)
    es = numpy.arange(f.emin - f.p + 1, f.emax + 1)
    v = numpy.ldexp(numpy.float64(1), es).astype(f.dt) if f.bits < 64 else numpy.ldexp(numpy.float64(1), es)
    v = numpy.concatenate([v, -v])
    return neighbours(v, dt, k=k)


def hostile_values(rng, dt, n, finite_only=True):
    """mixture: specials+neighbours, powers of two neighbours, random bits, mid-range"""
    f = fmt(dt)
    sp = neighbours(specials(dt), dt, k=3, finite_only=finite_only)
    p2 = powers_of_two(dt, k=2)
    if finite_only:
        p2 = p2[numpy.isfinite(p2)]
    c = rng.integers(0, 4, size=n)
    a = sp[rng.integers(0, sp.size, size=n)]
    b = p2[rng.integers(0, p2.size, size=n)]
    r = random_bits(rng, dt, n, inf=not finite_only)
    m = (rng.choice([-1.0, 1.0], size=n) * 2.0 ** rng.uniform(-12, 12, size=n)).astype(f.dt)
    return numpy.select([c == 0, c == 1, c == 2], [a, b, r], m).astype(f.dt)


def short_mantissa(rng, dt, n, bits):
    """values with at most `bits` significant bits, exponents anywhere (products of two such hit ties and exact cases)"""
    f = fmt(dt)
    m = rng.integers(1 << (bits - 1), 1 << bits, size=n).astype(numpy.float64)
    e = rng.integers(f.emin - f.p + 1, f.emax - bits + 1, size=n)
    s = rng.choice([-1.0, 1.0], size=n)
    with numpy.errstate(all="ignore"):
        v = numpy.ldexp(s * m, e)
    return v.astype(f.dt)


def hostile_pairs(rng, dt, n, finite_only=True):
    """relation generators for pairs: independent hostile values; exponent gaps {0,1,p-1,p,p+1,2p}; near cancellation y=-x+-k ulp;
    tie constructors (y = +-half ulp of x, +- tiny); short mantissas (product ties); |x| == |y|; scale extremes"""
    f = fmt(dt)
    p = f.p
    x = hostile_values(rng, dt, n, finite_only=finite_only)
    y = hostile_values(rng, dt, n, finite_only=finite_only)
    c = rng.integers(0, 8, size=n)
    ox = ordinal_arr(x)
    maxo = f.inf_bits - 1
    with numpy.errstate(all="ignore"):
        # 1: exponent gap
        gap = rng.choice([0, 1, 2, p - 2, p - 1, p, p + 1, p + 2, 2 * p, 2 * p + 1], size=n)
        mant = random_bits(rng, dt, n, inf=False)
        m, _ = numpy.frexp(mant.astype(numpy.float64))
        _, ex = numpy.frexp(x.astype(numpy.float64))
        y1 = numpy.ldexp(m, ex - gap).astype(f.dt)
        # 2: near cancellation
        k = rng.integers(-4, 5, size=n)
        y2 = -from_ordinal_arr(dt, numpy.clip(ox + k, -maxo, maxo))
        # 3: tie constructor: y = +-(half ulp of x) (+- much smaller)
        half = numpy.ldexp(numpy.float64(1), numpy.maximum(ex - 1 - p, f.emin - p + 1)).astype(f.dt)
        tiny = numpy.where(rng.random(n) < 0.5, 0, half * f.type(2.0 ** -int(p - 1))).astype(f.dt)
        y3 = (rng.choice([-1.0, 1.0], size=n).astype(f.dt) * half + rng.choice([-1.0, 0.0, 1.0], size=n).astype(f.dt) * tiny).astype(f.dt)
        # 4/5: short mantissas
        bits = int(rng.integers(2, p // 2 + 3))
        x4 = short_mantissa(rng, dt, n, bits)
        y4 = short_mantissa(rng, dt, n, int(rng.integers(2, p // 2 + 3)))
        # 6: equal magnitude
        y6 = (rng.choice([-1.0, 1.0], size=n).astype(f.dt) * x).astype(f.dt)
        # 7: product near under/overflow: y ~ limit / x
        lim = numpy.where(rng.random(n) < 0.5, float(numpy.finfo(dt).max), float(numpy.finfo(dt).smallest_normal)) * 2.0 ** rng.uniform(-3, 3, size=n)
        y7 = (lim / x.astype(numpy.float64)).astype(f.dt)
    X = numpy.select([c == 4, c == 5], [x4, x4], x).astype(f.dt)
    Y = numpy.select([c == 1, c == 2, c == 3, c == 4, c == 5, c == 6, c == 7], [y1, y2, y3, y4, y4, y6, y7], y).astype(f.dt)
    bad = numpy.isnan(X) | numpy.isnan(Y)
    if finite_only:
        bad |= ~numpy.isfinite(X) | ~numpy.isfinite(Y)
    X[bad] = f.type(1.5)
    Y[bad] = f.type(-0.75)
    return X, Y, c
