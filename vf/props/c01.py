"""C01 — complex-plane accuracy of every complex algorithm (16-ULP bound, spurious NaN/inf/sign, 99.9% within the design target).

Unit: the 14 complex graphs expanded by the package's own definitions (vf.graph.expanded), evaluated by interp_np and
cross-validated against the emitted NumPy source on a subsample.  Oracle: vf.mporacle (Ziv, candidate set per branch-cut side,
numeric limits at infinity).
"""
import math

import numpy

from .. import exact, gen, graph, mporacle
from ..core import unfl

LEVEL = "exploration"
RULE = ("per (function, dtype): W1 uniformly random bit patterns; W2 components 2^U(-12,12) with random signs; W3 hostile mixture: special-value lattice incl. "
        "every threshold the definitions compute (safe_min, safe_max variants, 1/epsneg, tuned constants, log(largest), 0.2, 0.48, 0.5, 1.5) +-3 ulps, structured "
        "curves (unit circle, x=-y^2/2, |x|=|y|, |1+z|~0.2, |x|=1 with tiny/subnormal y and rotated), tiny/huge mixes, infinities; W4 local error-maximising search "
        "from the worst points. distinct_nontrivial = distinct (function, dtype, select-arm signature) triples observed, i.e. distinct region combinations of the algorithm")
ASSUME = ["mpmath real primitives converge with precision; Ziv agreement at two precisions away from rounding boundaries; uncertifiable points are counted and excluded",
          "on a branch cut (zero component) the value of either side is accepted; limits at infinite inputs follow the numeric-limit construction of vf.mporacle (path-dependent components accept anything)",
          "rate claims are decided by a Chernoff-bounded one-sided binomial test at alpha=1e-6 over the whole run"]
REQUIRE = ["evaluations", "judged:W1", "judged:W2", "judged:W3", "judged:W5", "crossval:checked"]

TARGET = dict(sqrt=4, log1p=4)
HARD = 16


def component_distance(w, e, f):
    """(distance or None, flag) for one component: flag in {None, 'nan', 'inf', 'sign'}"""
    if e[0] in ("undef", "pathdep"):
        return 0, None
    if numpy.isnan(w):
        return None, "nan"
    if e[0] == "anyfinite":
        return 0, None
    ow = exact.ordinal(w)
    if e[0] == "zero":
        return abs(ow), None
    if e[0] == "inf":
        return abs(ow - e[1] * f.inf_bits), None
    oe = e[1]
    if abs(ow) == f.inf_bits and abs(oe) != f.inf_bits:
        return abs(ow - oe), "inf"
    d = abs(ow - oe)
    if ow != 0 and oe != 0 and (ow > 0) != (oe > 0):
        return d, "sign"
    return d, None


def judge_point(w, cands, f):
    """w: tuple of component values; returns (maxdist, flags, per-component distances, best candidate)"""
    best = None
    for c in cands:
        ds, flags = [], []
        for wi, ei in zip(w, c):
            d, fl = component_distance(wi, ei, f)
            ds.append(d)
            if fl:
                flags.append(fl)
        score = (len(flags), max([d if d is not None else 1 << 62 for d in ds]))
        if best is None or score < best[0]:
            best = (score, ds, flags, c)
    return best[1], best[2], best[3]


def thresholds(fdt):
    fi = numpy.finfo(fdt)
    t = fdt
    sq = float(numpy.sqrt(t(fi.max)))
    sm = float(numpy.sqrt(t(fi.smallest_normal)))
    big = float(fi.max)
    vals = [0.0, float(fi.smallest_subnormal), float(fi.smallest_subnormal) * 3, float(fi.smallest_normal), sm * 4, sm, float(fi.eps), float(numpy.sqrt(t(fi.eps))), 2.0**-12, 0.2, 0.48, 0.5,
            float(numpy.nextafter(t(1), t(0))), 1.0, float(numpy.nextafter(t(1), t(2))), 1.5, 2.0, 4.0, 1 / float(fi.epsneg), (1 / float(fi.epsneg)) ** 2, 62919776.0, 5805358775541310.0, 1028.0,
            sq * 0.01, sq / 8 * 1e-6, sq / 8, sq, min(sq / 8 * 100, big), min(sq / 8 * 1e12, big), big / 2, big, float(numpy.log(t(fi.max))), 88.7, 709.7, 0.34657359, 0.6931472,
            math.pi / 2, math.pi, float("inf")]
    with numpy.errstate(all="ignore"):
        return numpy.array([v for v in vals if v <= big or math.isinf(v)], dtype=numpy.float64).astype(fdt)


def hostile(rng, fdt, n):
    """W3"""
    f = exact.fmt(fdt)
    S = gen.neighbours(numpy.concatenate([thresholds(fdt), -thresholds(fdt)]), fdt, k=3)

    def comp(n):
        c = rng.integers(0, 4, size=n)
        a = S[rng.integers(0, S.size, size=n)]
        b = gen.random_bits(rng, fdt, n)
        with numpy.errstate(all="ignore"):
            c2 = (rng.choice([-1, 1], size=n) * 2.0 ** rng.uniform(-14, 14, size=n)).astype(fdt)
            c3 = (rng.choice([-1, 1], size=n) * 2.0 ** rng.uniform(f.emin - f.p, f.emin + 4, size=n)).astype(fdt)  # subnormal / tiny
        return numpy.select([c == 0, c == 1, c == 2], [a, b, c2], c3).astype(fdt)

    x, y = comp(n), comp(n)
    m = n // 2
    k = rng.integers(0, 8, size=m)
    with numpy.errstate(all="ignore"):
        t = rng.uniform(0, 2 * numpy.pi, size=m)
        ux, uy = numpy.cos(t).astype(fdt), numpy.sin(t).astype(fdt)
        yy = (2.0 ** rng.uniform(-30, 0.5, size=m) * rng.choice([-1, 1], size=m)).astype(fdt)
        lx = (-fdt(0.5) * yy * yy).astype(fdt)
        ex = (rng.choice([-1, 1], size=m) * numpy.abs(y[:m])).astype(fdt)
        r02 = (0.2 * rng.uniform(0.999, 1.001, size=m)).astype(fdt)
        cx = (-1 + r02 * ux).astype(fdt)
        cy = (r02 * uy).astype(fdt)
        ty = (2.0 ** rng.uniform(f.emin - f.p, -5, size=m)).astype(fdt)
        tx = numpy.sqrt(1 - ty.astype(numpy.float64) ** 2).astype(fdt)
        one = rng.choice([-1.0, 1.0], size=m).astype(fdt)
        tinyy = (2.0 ** rng.uniform(f.emin - f.p, -f.p, size=m) * rng.choice([-1, 1], size=m)).astype(fdt)
        hx = (2.0 ** rng.uniform(f.emax - 4, f.emax, size=m) * rng.choice([-1, 1], size=m)).astype(fdt)
        hy = (hx.astype(numpy.float64) * 2.0 ** rng.uniform(-f.p - 2, f.p + 2, size=m)).astype(fdt)
    X = numpy.select([k == 0, k == 1, k == 2, k == 3, k == 4, k == 5, k == 6], [ux, lx, ex, cx, tx, one, hx], -one)
    Y = numpy.select([k == 0, k == 1, k == 2, k == 3, k == 4, k == 5, k == 6], [uy, yy, y[:m], cy, ty, tinyy, hy], tinyy)
    swap = (rng.random(m) < 0.3) & (k >= 4)
    X, Y = numpy.where(swap, Y, X), numpy.where(swap, X, Y)
    # jitter a few ulps
    j = rng.integers(-2, 3, size=m) * (rng.random(m) < 0.4)
    ok = numpy.isfinite(X)
    X = numpy.where(ok, exact.from_ordinal_arr(fdt, numpy.clip(exact.ordinal_arr(numpy.where(ok, X, 0)) + j, -f.inf_bits + 1, f.inf_bits - 1)), X)
    x[:m] = X.astype(fdt)
    y[:m] = Y.astype(fdt)
    bad = numpy.isnan(x) | numpy.isnan(y)
    x[bad] = 1.5
    y[bad] = -0.75
    return x, y


def bands(rng, fdt, n):
    """W5: both components inside a band (a factor 2^-3 .. 2^0.5) around a threshold - the same threshold for both (comparable magnitudes: where
    x*x + y*y, hypot(x, y), x*y just over- or underflow although each component is still fine) or two different ones"""
    fi = numpy.finfo(fdt)
    big, sq = float(fi.max), float(numpy.sqrt(fdt(fi.max)))
    T = numpy.array([big, big / 2, sq, sq * 2, sq / 8, big ** 0.25, 1 / float(fi.epsneg), (1 / float(fi.epsneg)) ** 2, float(numpy.log(fdt(fi.max))), 2 * float(numpy.log(fdt(fi.max))), 1.0,
                     float(numpy.sqrt(fdt(fi.eps))), float(fi.eps), float(numpy.sqrt(fdt(fi.smallest_normal))), float(fi.smallest_normal) ** 0.25, float(fi.smallest_normal) * 4], dtype=numpy.float64)
    T = T[T <= big]
    i = rng.integers(0, T.size, size=n)
    j = numpy.where(rng.random(n) < 0.65, i, rng.integers(0, T.size, size=n))
    with numpy.errstate(all="ignore"):
        x = (T[i] * 2.0 ** rng.uniform(-3, 0.5, size=n) * rng.choice([-1, 1], size=n))
        y = (T[j] * 2.0 ** rng.uniform(-3, 0.5, size=n) * rng.choice([-1, 1], size=n))
        x, y = numpy.clip(x, -big, big).astype(fdt), numpy.clip(y, -big, big).astype(fdt)
    return x, y


def midrange(rng, fdt, n):
    with numpy.errstate(all="ignore"):
        x = (rng.choice([-1, 1], size=n) * 2.0 ** rng.uniform(-12, 12, size=n)).astype(fdt)
        y = (rng.choice([-1, 1], size=n) * 2.0 ** rng.uniform(-12, 12, size=n)).astype(fdt)
    return x, y


class Unit:
    def __init__(self, fname, cdt):
        self.fname = fname
        self.cdt = numpy.dtype(cdt).type
        self.fdt = {numpy.complex64: numpy.float32, numpy.complex128: numpy.float64}[self.cdt]
        self.g = graph.expanded(fname, self.cdt)
        self.f = exact.fmt(self.fdt)
        self.oracle = mporacle.Oracle(self.fdt)
        self.cov = {}
        self._emitted = None

    def evaluate(self, x, y):
        z = graph.make_complex(x, y)
        w = numpy.asarray(graph.interp_np(self.g, z, coverage=self.cov))
        return z, w

    def emitted(self):
        if self._emitted is None:
            from functional_algorithms import targets

            self._emitted = targets.numpy.as_function(self.g, debug=0)
        return self._emitted

    def arm_signature(self, x, y):
        """select-arm signature of single points (for distinct counting): evaluate one by one is too slow; use per-batch sampling"""
        return None


def run_workload(rec, unit, name, x, y, rate=False):
    fname, f = unit.fname, unit.f
    fdt = unit.fdt
    dtn = numpy.dtype(unit.cdt).name
    z, w = unit.evaluate(x, y)
    n = x.size
    target = TARGET.get(fname, 3)
    over = 0
    judged = 0
    worst = (0, None)
    # cross-validation against the emitted NumPy source (subsample)
    m = min(n, 80)
    try:
        import warnings

        with warnings.catch_warnings():
            warnings.simplefilter("ignore")
            with numpy.errstate(all="ignore"):
                fn_e = unit.emitted()
                we = numpy.array([fn_e(zz) for zz in z[:m]])  # the emitted code builds complex results from scalars
        a = numpy.ascontiguousarray(w[:m])
        b = numpy.ascontiguousarray(we).astype(a.dtype)
        va = a.view(fdt) if a.dtype.kind == "c" else a
        vb = b.view(fdt) if b.dtype.kind == "c" else b
        same = (va.view(exact.INT[numpy.dtype(fdt)]) == vb.view(exact.INT[numpy.dtype(fdt)])) | (numpy.isnan(va) & numpy.isnan(vb))
        rec.count("crossval:checked", m)
        if not same.all():
            i = int(numpy.flatnonzero(~same)[0]) // (2 if a.dtype.kind == "c" else 1)
            rec.inconc(f"interp_np and the emitted NumPy source disagree for {fname} {dtn} at z={z[i]!r}: {a[i]!r} vs {b[i]!r} (reported under C05)")
    except Exception as e:
        rec.count("crossval:emitted-source-failed:" + type(e).__name__)
    for i in range(n):
        xi, yi = x[i], y[i]
        try:
            cands = unit.oracle.complex(fname, xi, yi)
        except mporacle.Inconclusive:
            rec.count("oracle:inconclusive")
            continue
        wi = w[i]
        comps = (fdt(wi.real), fdt(wi.imag)) if w.dtype.kind == "c" else (fdt(wi),)
        ds, flags, cand = judge_point(comps, cands, f)
        judged += 1
        dmax = max([d if d is not None else 1 << 62 for d in ds])
        if dmax > target:
            over += 1
        if dmax > worst[0]:
            worst = (dmax, i)
        if flags or dmax > HARD:
            kind = "spurious-" + flags[0] if flags and flags[0] in ("nan", "inf") else ("wrong-sign" if flags else "ulp-bound")
            exp = [float(unit.oracle.to_float(e)) if e[0] in ("val", "inf") else e[0] for e in cand]
            rec.violation(f"{kind}:{fname}", dict(function=fname, dtype=dtn, workload=name, x=xi, y=yi, got=list(comps), expected=exp,
                                                   ulps=[int(min(d, 1 << 40)) if d is not None else None for d in ds], flags=flags))
    rec.count("evaluations", n)
    rec.count("judged:" + name, judged)
    if rate:
        rec.count(f"rate_n:{name}:{fname}:{dtn}", judged)
        rec.count(f"rate_over:{name}:{fname}:{dtn}", over)
    rec.note(f"worst:{name}:{fname}:{dtn}", int(min(worst[0], 1 << 40)))
    return worst


def local_search(rec, unit, x0, y0, rng, steps):
    """W4: coordinate +-ulp / exponent moves from a starting point, keeping the worst"""
    f, fdt = unit.f, unit.fdt
    cur = (x0, y0)
    best = -1
    for s in range(steps):
        k = 24
        ox = numpy.clip(exact.ordinal(cur[0]) + rng.integers(-64, 65, size=k) * rng.choice([1, 1, 1, 1 << (f.p - 1)], size=k), -f.inf_bits + 1, f.inf_bits - 1)
        oy = numpy.clip(exact.ordinal(cur[1]) + rng.integers(-64, 65, size=k) * rng.choice([1, 1, 1, 1 << (f.p - 1)], size=k), -f.inf_bits + 1, f.inf_bits - 1)
        xs = exact.from_ordinal_arr(fdt, ox)
        ys = exact.from_ordinal_arr(fdt, oy)
        worst = run_workload(rec, unit, "W4", xs, ys)
        if worst[1] is None or worst[0] <= best:
            break
        best = worst[0]
        cur = (xs[worst[1]], ys[worst[1]])


def task_unit(params, rec):
    cdt = getattr(numpy, params["cdtype"])
    fname = params["function"]
    unit = Unit(fname, cdt)
    fdt = unit.fdt
    rng = gen.rng_for(params["seed"], 1, params["shard"], graph.COMPLEX_FUNCS.index(fname), numpy.dtype(cdt).itemsize)
    n1, n2, n3 = params["n1"], params["n2"], params["n3"]
    if n1:
        run_workload(rec, unit, "W1", gen.random_bits(rng, fdt, n1), gen.random_bits(rng, fdt, n1), rate=True)
    if n2:
        run_workload(rec, unit, "W2", *midrange(rng, fdt, n2), rate=True)
    if n3:
        x, y = hostile(rng, fdt, n3)
        worst = run_workload(rec, unit, "W3", x, y)
        if params.get("search") and worst[1] is not None:
            local_search(rec, unit, x[worst[1]], y[worst[1]], rng, params["search"])
        if params["shard"] == 0:
            rec.sample(dict(function=fname, dtype=params["cdtype"], workload="W3", z=[x[0], y[0]], z2=[x[n3 // 2 + 1], y[n3 // 2 + 1]]))
    n5 = params.get("n5", 0)
    if n5:
        run_workload(rec, unit, "W5", *bands(rng, fdt, n5))
    # select-arm coverage
    cov = unit.cov
    nsel = graph.count_selects(unit.g)
    arms_hit = sum((1 if a > 0 else 0) + (1 if b > 0 else 0) for a, b in cov.values())
    rec.note(f"arms:{fname}:{params['cdtype']}", dict(selects=nsel, arms_hit_max=arms_hit))
    for idx, (a, b) in cov.items():
        if a > 0:
            rec.cls(fname, params["cdtype"], idx, True)
        if b > 0:
            rec.cls(fname, params["cdtype"], idx, False)
        if a == 0 or b == 0:
            rec.count(f"arm-unreached:{fname}:{params['cdtype']}:{idx}:{'T' if a == 0 else 'F'}")


TASKS = {"unit": task_unit}
SHARD_TIMEOUT = {"quick": 2400, "thorough": 14000}


def plan(tier, seed):
    t = []
    for c in ("complex64", "complex128"):
        for fn in graph.COMPLEX_FUNCS:
            if tier == "quick":
                t.append(("unit", dict(function=fn, cdtype=c, seed=seed, shard=0, n1=300, n2=300, n3=900, n5=500, search=2)))
            else:
                for s in range(4):
                    t.append(("unit", dict(function=fn, cdtype=c, seed=seed, shard=s, n1=5000, n2=5000, n3=5000, n5=4000, search=12)))
    return t


def post(tier, seed, rec):
    """99.9% within target on W1 and on W2: one-sided test of rate <= 1e-3 at alpha = 1e-6 over the whole run (Chernoff bound)"""
    r0 = 1e-3
    keys = [k for k in rec.counters if k.startswith("rate_n:")]
    for key in keys:
        _, wl, fn, dtn = key.split(":")
        n = rec.counters[key]
        kk = rec.counters.get(f"rate_over:{wl}:{fn}:{dtn}", 0)
        rec.note(f"rate:{wl}:{fn}:{dtn}", dict(n=int(n), over_target=int(kk)))
        lam = n * r0
        if n and kk > lam:
            logp = -lam + kk * (1 + math.log(lam / kk))
            if logp < math.log(1e-6 / max(1, len(keys))):
                rec.violation(f"rate-over-target:{fn}", dict(function=fn, dtype=dtn, workload=wl, n=int(n), over_target=int(kk), rate=kk / n, claimed=r0, log_p=logp))


def replay(site, witness, rec):
    cdt = getattr(numpy, witness["dtype"])
    unit = Unit(witness["function"], cdt)
    x = numpy.array([unfl(witness["x"], unit.fdt)], dtype=unit.fdt)
    y = numpy.array([unfl(witness["y"], unit.fdt)], dtype=unit.fdt)
    run_workload(rec, unit, "W3", x, y)
