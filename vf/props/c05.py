"""C05 — executable targets (Python, NumPy, C++) compute exactly the traced graph.

Translation validation per program: the emitted text must load (exec / g++), bind every variable exactly once before use
(ast / statement scanner), never share a variable between distinct sub-expressions, and - executed on hostile inputs - return
results bit-identical to a scalar reference interpreter of the same graph over the same primitive library (vf.refinterp).
The thorough tier rebuilds the C++ batch with clang++ -fsanitize=address,undefined.
"""
import ast
import ctypes
import io
import contextlib
import math
import os
import random
import re
import shutil
import struct
import subprocess
import tempfile
import warnings

import numpy

from .. import refinterp
from ..refinterp import RefRaised, Unsupported

LEVEL = "translation_validation"
RULE = ("programs = every (function, signature) of the python / numpy (debug 0 and 1) / cpp trace_arguments + unit programs for every entry of each target's "
        "kind_to_target and constant_to_target tables + random typed graphs over the kinds the target declares; inputs = hostile scalars (+-0, subnormal, tiny, 1+-ulp, "
        "huge, +-inf, nan) and random bit patterns. A program is non-trivial when it has at least one referenced (assigned) intermediate or a select")
ASSUME = ["C++ batches are built with -fno-builtin -frounding-math so that the compiler does not fold std:: calls on constants with MPFR instead of calling libm (the float overloads of <cmath> are __builtin_ calls, which -fno-builtin alone does not stop at -O1)", "reference semantics per primitive library are written from the libraries' documentation in vf/refinterp.py (Python math; NumPy scalars; IEEE ops + glibc libm via ctypes)",
          "maximum/minimum accept either operand when the operands compare equal or one is NaN; a reference run that raises (Python math domain/zero-division/overflow) is not compared",
          "g++ 12 -O1 -ffp-contract=off on x86-64 SSE (FLT_EVAL_METHOD == 0)"]
REQUIRE = ["programs", "programs:python", "programs:numpy", "programs:cpp", "executions:python", "executions:numpy", "executions:cpp", "table-entries:exercised"]

HOSTILE = [0.0, -0.0, 5e-324, 1e-310, 2.2250738585072014e-308, 1e-40, 1e-30, 1e-8, 0.2, 0.48, 0.5, 0.9999999, 1.0, 1.0000001, 1.5, 2.0, 3.0, 10.0, 88.0, 700.0, 1e8, 1e19, 1e30, 1e38, 1e154, 1e300,
           1.7976931348623157e308, math.inf, math.nan]


def bits(v):
    """bit pattern of a python/numpy scalar (real or complex), NaNs canonicalised"""
    if isinstance(v, (list, tuple)):
        return tuple(bits(x) for x in v)
    a = numpy.asarray(v)
    if a.dtype.kind == "c":
        return (bits(a.real[()]), bits(a.imag[()]))
    if a.dtype.kind == "b":
        return ("b", bool(a))
    if a.dtype.kind in "iu":
        return ("i", int(a))
    if a.dtype.kind == "f":
        if numpy.isnan(a):
            return (a.dtype.name, "nan")
        return (a.dtype.name, a.tobytes())
    if isinstance(v, bool):
        return ("b", v)
    if isinstance(v, int):
        return ("i", v)
    if isinstance(v, float):
        return ("float64", "nan") if math.isnan(v) else ("float64", struct.pack("<d", v))
    if isinstance(v, complex):
        return (bits(v.real), bits(v.imag))
    return ("?", repr(v))


def same_value(a, b, loose_type=False):
    """bit-identical (NaN == NaN). loose_type: Python target mixes int 0/1 literals into float results (0 == 0.0)"""
    ba, bb = bits(a), bits(b)
    if ba == bb:
        return True
    if loose_type:
        try:
            fa_, fb_ = complex(a), complex(b)
            return bits(fa_) == bits(fb_)
        except Exception:
            return False
    return False


def describe(e):
    try:
        return " ".join(str(e).split())[:400]
    except Exception:
        return f"<{getattr(e, 'kind', '?')}>"


# ------------------------------------------------------------------------------------------------ text monitors
def single_assignment_python(src, fname):
    """every name bound exactly once, before its first load; arguments count as bound. Returns list of problems."""
    tree = ast.parse(src)
    fn = [n for n in ast.walk(tree) if isinstance(n, ast.FunctionDef)]
    problems = []
    for f in fn:
        bound = {a.arg for a in f.args.args}
        order = []

        class V(ast.NodeVisitor):
            def visit_Assign(self, node):
                self.visit(node.value)
                for t in node.targets:
                    for n in ast.walk(t):
                        if isinstance(n, ast.Name):
                            # the argument-cast idiom `arg = T(arg)` re-binds an argument to its own cast value: not a second definition
                            v = node.value
                            if n.id in bound and isinstance(v, ast.Call) and len(v.args) == 1 and isinstance(v.args[0], ast.Name) and v.args[0].id == n.id:
                                continue
                            order.append(("store", n.id, node.lineno))

            def visit_AnnAssign(self, node):
                if node.value is not None:
                    self.visit(node.value)
                if isinstance(node.target, ast.Name):
                    order.append(("store", node.target.id, node.lineno))

            def visit_Name(self, node):
                if isinstance(node.ctx, ast.Load):
                    order.append(("load", node.id, node.lineno))

        for stmt in f.body:
            V().visit(stmt)
        assigned = set()
        builtins_ok = {"numpy", "math", "sys", "warnings", "make_complex", "complex", "abs", "max", "min", "float", "int", "bool", "print", "finfo_float32", "finfo_float64", "isinstance", "list", "len", "type", "result", "True", "False", "None"}
        for kind, name, line in order:
            if kind == "store":
                if name in assigned or name in bound:
                    if name != "result":
                        problems.append(f"{name} assigned twice (line {line})")
                assigned.add(name)
            else:
                if name not in assigned and name not in bound and name not in builtins_ok:
                    problems.append(f"{name} used before assignment / never defined (line {line})")
    return problems


def assigned_names_python(src):
    tree = ast.parse(src)
    out = []
    for n in ast.walk(tree):
        if isinstance(n, ast.AnnAssign) and isinstance(n.target, ast.Name):
            out.append(n.target.id)
        elif isinstance(n, ast.Assign):
            for t in n.targets:
                if isinstance(t, ast.Name):
                    out.append(t.id)
    return out


CPP_DECL = re.compile(r"^\s*(?:const\s+)?(?:std::complex<\w+>|float|double|bool|int\d*_t|int)\s+(\w+)\s*=\s*(.*);\s*$")


def single_assignment_cpp(body_lines, args):
    problems = []
    bound = set(args)
    for ln in body_lines:
        m = CPP_DECL.match(ln)
        if m:
            name, rhs = m.group(1), m.group(2)
            for ident in re.findall(r"[A-Za-z_]\w*", rhs):
                pass
            if name in bound:
                problems.append(f"{name} declared twice")
            bound.add(name)
    return problems, bound


def sharing_problems(g, assigned):
    """distinct Expr objects whose reference name is one of the assigned variables must be unique per name"""
    from ..graph import walk

    by = {}
    for e in walk(g):
        if e.kind in ("apply",):
            continue
        try:
            r = e.ref
        except Exception:
            continue
        if r in assigned:
            by.setdefault(r, []).append(e)
    out = {}
    for r, es in by.items():
        if len(es) < 2:
            continue
        # constants that differ only in their `like` expression but have the same value bits and the same static type denote the same
        # computation: sharing one variable between them is not a substitution of one value for another
        def ckey(e):
            if e.kind != "constant":
                return ("expr", id(e))
            v = e.operands[0]
            return ("const", bits(v) if not isinstance(v, str) and not hasattr(v, "kind") else str(v), type(v).__name__ if not hasattr(v, "kind") else "expr", str(e.get_type()))
        if len({ckey(e) for e in es}) > 1:
            out[r] = es
    return out


# ------------------------------------------------------------------------------------------------ program generation
class ProgGen:
    """typed random programs over a kind set; returns python callables fn(ctx, *syms) and their signature"""

    def __init__(self, rnd, float_types, complex_types, kinds, consts, named):
        self.rnd, self.ft, self.ct, self.kinds, self.consts, self.named = rnd, float_types, complex_types, set(kinds), consts, named

    def make(self):
        rnd = self.rnd
        nsym = rnd.randint(1, 3)
        cplx = self.ct and rnd.random() < 0.35
        base = rnd.choice(self.ft)
        sig = []
        for i in range(nsym):
            if cplx and i == 0:
                sig.append(self.ct[self.ft.index(base)] if len(self.ct) == len(self.ft) else self.ct[0])
            else:
                sig.append(base)
        steps = rnd.randint(2, 12)
        seed = rnd.random()
        kinds, consts, named = self.kinds, self.consts, self.named

        def fn(ctx, *syms):
            r = random.Random(seed)
            fl = [s for s in syms if not s.get_type().is_complex]
            cx = [s for s in syms if s.get_type().is_complex]
            for s in cx:
                fl += [ctx.real(s), ctx.imag(s)]
            if not fl:
                fl = [ctx.real(cx[0])]
            bo = []
            UN = [k for k in ("absolute", "negative", "sqrt", "exp", "log", "log1p", "sin", "cos", "atan", "asinh", "tanh", "floor", "ceil", "sign", "square", "expm1", "acos", "acosh", "atanh", "tan", "sinh", "cosh", "log2", "log10", "truncate", "positive") if k in kinds]
            BI = [k for k in ("add", "subtract", "multiply", "divide", "maximum", "minimum", "atan2", "hypot", "copysign", "pow") if k in kinds]
            CM = [k for k in ("lt", "le", "gt", "ge", "eq", "ne") if k in kinds]
            for _ in range(steps):
                c = r.random()
                if c < 0.18:
                    v = r.choice(consts + named)
                    fl.append(ctx.constant(v, r.choice(fl)))
                elif c < 0.42 and UN:
                    fl.append(getattr(ctx, r.choice(UN))(r.choice(fl)))
                elif c < 0.72 and BI:
                    fl.append(getattr(ctx, r.choice(BI))(r.choice(fl), r.choice(fl)))
                elif c < 0.85 and CM:
                    bo.append(getattr(ctx, r.choice(CM))(r.choice(fl), r.choice(fl)))
                    if len(bo) > 1 and r.random() < 0.5:
                        k = r.choice([k for k in ("logical_and", "logical_or") if k in kinds] or ["logical_and"])
                        bo.append(getattr(ctx, k)(bo[-1], r.choice(bo)))
                    if r.random() < 0.3 and "logical_not" in kinds:
                        bo.append(ctx.logical_not(bo[-1]))
                elif bo and "select" in kinds:
                    fl.append(ctx.select(r.choice(bo), r.choice(fl), r.choice(fl)))
                else:
                    fl.append(ctx.add(r.choice(fl), r.choice(fl)))
            res = fl[-1]
            if cx and "complex" in kinds and r.random() < 0.7:
                return ctx.complex(res, r.choice(fl))
            return res

        return fn, sig


def trace_program(fa, fn, sig, target, name, rewrite, alt=False, algebraic=True):
    ns = {}
    argnames = getattr(fn, "argnames", None) or list("abcd"[: len(sig)])
    exec("def %s(ctx, %s):\n    return _fn(ctx, %s)\n" % (name, ", ".join(argnames), ", ".join(argnames)), dict(_fn=fn), ns)
    ctx = fa.Context(paths=[fa.algorithms])
    with warnings.catch_warnings():
        warnings.simplefilter("ignore")
        with contextlib.redirect_stdout(io.StringIO()):
            g = ctx.trace(ns[name], *[s if str(s).startswith(":") else f":{s}" for s in sig])
            # a target accepts graphs with and without the algebraic rewriter applied after its own expansion pass
            return g.rewrite(target, rewrite) if algebraic else g.rewrite(target)


def unit_programs(target, float_t, complex_t, int_t):
    """one tiny program per declared kind / named constant so that every table entry is exercised"""
    out = []
    k2t = target.kind_to_target
    for kind, tmpl in k2t.items():
        if tmpl is NotImplemented:
            continue
        if kind in ("list", "item", "nextafter", "round", "dtype_index"):
            continue

        def mk(kind=kind):
            if kind in ("logical_and", "logical_or", "logical_xor"):
                return (lambda ctx, a, b: ctx.select(getattr(ctx, kind)(a < b, a > ctx.constant(0, a)), a, b)), [float_t, float_t]
            if kind == "logical_not":
                return (lambda ctx, a, b: ctx.select(ctx.logical_not(a < b), a, b)), [float_t, float_t]
            if kind in ("lt", "le", "gt", "ge", "eq", "ne"):
                return (lambda ctx, a, b: ctx.select(getattr(ctx, kind)(a, b), a, b)), [float_t, float_t]
            if kind == "select":
                return (lambda ctx, a, b: ctx.select(a < b, a, b)), [float_t, float_t]
            if kind.startswith("bitwise"):
                if int_t is None:
                    return None
                if kind == "bitwise_invert":
                    return (lambda ctx, a: fa_expr(ctx, kind, a)), [int_t]
                return (lambda ctx, a, b: fa_expr(ctx, kind, a, b)), [int_t, int_t]
            if kind in ("real", "imag", "conjugate"):
                if complex_t is None:
                    return None
                return (lambda ctx, z: fa_expr(ctx, kind, z)), [complex_t]
            if kind == "complex":
                if complex_t is None:
                    return None
                return (lambda ctx, a, b: ctx.complex(a, b)), [float_t, float_t]
            if kind in ("upcast", "downcast"):
                return (lambda ctx, a: fa_expr(ctx, kind, a)), ["float32"]
            if kind == "is_finite":
                return (lambda ctx, a, b: ctx.select(fa_expr(ctx, kind, a), a, b)), [float_t, float_t]
            if kind == "remainder" and target.__name__.endswith("cpp"):
                # the C++ template is the integer operator %: exercised with integer operands only
                if int_t is None:
                    return None
                return (lambda ctx, a, b: fa_expr(ctx, kind, a, b)), [int_t, int_t]
            if kind in ("add", "subtract", "multiply", "divide", "remainder", "floor_divide", "pow", "maximum", "minimum", "atan2", "copysign", "hypot"):
                return (lambda ctx, a, b: fa_expr(ctx, kind, a, b)), [float_t, float_t]
            return (lambda ctx, a: fa_expr(ctx, kind, a)), [float_t]

        r = mk()
        if r is not None:
            out.append(("kind:" + kind, r[0], r[1]))
    for cname in target.constant_to_target:
        out.append(("const:" + cname, (lambda ctx, a, cname=cname: a + ctx.constant(cname, a)), [float_t]))
    for cname in ("eps", "nan", "smallest_subnormal", "smallest", "largest", "pi", "posinf", "neginf"):
        if cname not in target.constant_to_target:
            out.append(("const-undeclared:" + cname, (lambda ctx, a, cname=cname: a + ctx.constant(cname, a)), [float_t]))
    return out


def fa_expr(ctx, kind, *ops):
    from functional_algorithms import Expr

    return Expr(ctx, kind, ops)


def scalar_inputs(rnd, sig, n, pytypes=False):
    """n argument tuples of hostile scalars for a signature of type names; a quarter of the tuples repeat one value in every argument
    (comparisons and min/max differ only at equality)"""
    out = []
    for i_ in range(n):
        args = []
        same = rnd.choice(HOSTILE[:-1]) * rnd.choice([1, -1]) if (i_ % 4 == 0 and len(sig) > 1) else None
        for t in sig:
            t = str(t).lstrip(":")

            def one():
                if same is not None:
                    return same
                v = rnd.choice(HOSTILE) * rnd.choice([1, -1]) if rnd.random() < 0.7 else struct.unpack("<d", struct.pack("<Q", rnd.getrandbits(64)))[0]
                return v

            if t in ("float", "float64"):
                args.append(float(one()) if pytypes or t == "float" and pytypes else numpy.float64(one()))
            elif t == "float32":
                with numpy.errstate(all="ignore"):
                    args.append(numpy.float32(one()))
            elif t == "float16":
                with numpy.errstate(all="ignore"):
                    args.append(numpy.float16(one()))
            elif t in ("complex", "complex128"):
                z = complex(one(), one())
                args.append(z if pytypes else numpy.complex128(z))
            elif t == "complex64":
                with numpy.errstate(all="ignore"):
                    args.append(numpy.complex64(complex(numpy.float32(one()), numpy.float32(one()))))
            elif t.startswith("int"):
                args.append(int(rnd.randint(-5, 40)) if pytypes else numpy.int64(rnd.randint(-5, 40)))
            else:
                raise Unsupported(t)
        out.append(tuple(args))
    return out


def collect_programs(fa, tname, rnd, ngen):
    """yield (label, graph) for a target: shipped, unit, generated"""
    from functional_algorithms import rewrite

    target = getattr(fa.targets, tname)
    progs = []
    for fname, sigs in target.trace_arguments.items():
        for i, sig in enumerate(sigs):
            if getattr(fa.algorithms, fname, None) is None:
                continue
            progs.append((f"shipped:{fname}:{','.join(sig)}", ("shipped", fname, sig, i)))
    ft, ct, it = {"python": ("float", "complex", "int"), "numpy": ("float32", "complex64", "int64"), "cpp": ("float32", "complex64", "int64")}[tname]
    for label, fn, sig in unit_programs(target, ft, ct, it):
        progs.append((f"unit:{label}", ("fn", fn, sig)))
        if not label.startswith("const-undeclared:"):  # a name the target does not declare is only accepted once the rewriter has folded it
            progs.append((f"unit-norewrite:{label}", ("fn-norewrite", fn, sig)))  # the rewriter canonicalises e.g. select(a >= b, ..): print the raw kind too
        if tname != "python" and not label.startswith("kind:upcast") and not label.startswith("kind:downcast"):
            sig64 = [{"float32": "float64", "complex64": "complex128"}.get(s, s) for s in sig]
            progs.append((f"unit64:{label}", ("fn", fn, sig64)))
    # directed programs for printer idioms: operand parenthesisation, per-operand types in templates, constants of equal value under different
    # types / signs, non-finite and complex constants, mixed-precision signatures
    ft64 = "float" if tname == "python" else "float64"
    ct64 = "complex" if tname == "python" else "complex128"
    directed = [
        ("sign-of-select", lambda ctx, a, b: ctx.sign(ctx.select(a < b, a, b)), [ft, ft]),
        ("sign-of-sum", lambda ctx, a, b: ctx.sign(a + b) * b, [ft, ft]),
        ("neg-of-select", lambda ctx, a, b: -ctx.select(a < b, a, b) - (-b), [ft, ft]),
        ("abs-of-difference", lambda ctx, a, b: ctx.absolute(a - b) / ctx.absolute(a + b), [ft, ft]),
        ("nested-division", lambda ctx, a, b: a / (b / (a / b)) - (a - (b - a)), [ft, ft]),
        ("zero-signs", lambda ctx, a: ctx.atan2(ctx.constant(0.0, a), a) + ctx.atan2(ctx.constant(-0.0, a), a), [ft]),
        ("same-value-two-likes", lambda ctx, a, b: ctx.atan2(ctx.constant(2.0, a), ctx.constant(2.0, b)) + a * ctx.constant(0.1, a) + b * ctx.constant(0.1, b), [ft, ft64]),
        ("mixed-precision", lambda ctx, a, b: (a * b + a) / (b - ctx.constant(3, b)), [ft, ft64]),
        ("int-and-float-literals", lambda ctx, a: (a + 1) * ctx.constant(1, a) + ctx.constant(1.0, a) + ctx.constant(True, a) * a if False else (a + 1) * ctx.constant(1, a) + ctx.constant(1.0, a), [ft]),
        ("shared-subexpression", lambda ctx, a, b: (lambda t: t * t + t / (t + ctx.constant(1, a)))(a * b + a), [ft, ft]),
    ]
    for cmpk in ("lt", "le", "gt", "ge", "eq", "ne"):
        directed.append((f"cmp-inside-logical:{cmpk}", (lambda ctx, a, b, cmpk=cmpk: ctx.select(ctx.logical_and(getattr(ctx, cmpk)(a, b), getattr(ctx, cmpk)(b + a, a + a)), a - b, b / a)), [ft, ft]))
        directed.append((f"cmp-referenced-twice:{cmpk}", (lambda ctx, a, b, cmpk=cmpk: (lambda c: ctx.select(c, a, b) + ctx.select(ctx.logical_not(c), a * a, b * b))(getattr(ctx, cmpk)(a, b))), [ft, ft]))
    directed += [
        ("named-constant-two-types", lambda ctx, a, b: a * ctx.constant("largest", a) + b * ctx.constant("largest", b) + a * ctx.constant("smallest", a) + b * ctx.constant("smallest", b), [ft, ft64]),
        ("literal-two-types", lambda ctx, a, b: (a * ctx.constant(0.1, a) + ctx.constant(0.1, a)) + (b * ctx.constant(0.1, b) + ctx.constant(0.1, b)), [ft, ft64]),
        ("negative-and-long-literals", lambda ctx, a: a * ctx.constant(-1.2345678901234567, a) + ctx.constant(-7, a) / (a + ctx.constant(1e-300 if ft != "float32" else 1e-30, a)) + ctx.constant(123456789.123456789, a), [ft]),
    ]
    # literal constants that are not finite, given as Python and as NumPy scalars
    directed += [
        ("literal-inf", lambda ctx, a: a + ctx.constant(math.inf, a), [ft]),
        ("literal-neginf", lambda ctx, a: a * ctx.constant(-math.inf, a) - a, [ft]),
        ("literal-nan", lambda ctx, a: a + ctx.constant(math.nan, a), [ft]),
        ("literal-numpy-inf", lambda ctx, a: a - ctx.constant(numpy.float64(math.inf), a) / a, [ft]),
        ("literal-numpy-neginf", lambda ctx, a: a - ctx.constant(numpy.float32(-math.inf), a), [ft]),
    ]
    # constants whose bit patterns contain bytes below 0x10 (identifier construction), all used twice so that each gets a variable
    def near_identifiers(ctx, a):
        vals = [struct.unpack("<f", struct.pack("<I", b))[0] for b in (0x3F011000, 0x3F110000, 0x3F100100, 0x3F001100, 0x3F101000)]
        cs = [ctx.constant(v, a) for v in vals]
        ts = [a * c for c in cs]
        r = ts[0] * ts[0]
        for t in ts[1:]:
            r = r + t * t
        return r
    def near_identifiers64(ctx, a, b):
        vals = [struct.unpack("<d", struct.pack("<Q", q))[0] for q in (0x3FE0110000000000, 0x3FE1010000000000, 0x3FE0011000000000, 0x3FE1100000000000)]
        ts = [b * ctx.constant(v, b) for v in vals]
        r = ts[0] * ts[0]
        for t in ts[1:]:
            r = r + t * t
        return r + a * a
    directed += [("near-identical-identifiers", near_identifiers, [ft]), ("near-identical-identifiers-64", near_identifiers64, [ft, ft64])]
    # user-chosen reference names that repeat, at top level and inside called functions
    def inner(ctx, u):
        p_ = (u * u).reference("t")
        q_ = (p_ + u).reference("t")
        r_ = (p_ - q_ * u).reference("t")
        return q_ * p_ * q_ * r_ * r_
    def refnames_call(ctx, a, b):
        t = (a + b).reference("t")
        w = ctx.call(inner, (t,))
        w2 = ctx.call(inner, (a - b,))
        return ctx(t * w * t * w + w2 * w2)
    def refnames_top(ctx, a, b):
        t1 = (a + b).reference("t")
        t2 = (a - b).reference("t")
        t3 = (a * b).reference("t")
        t4 = (a / b).reference("t")
        return t1 * t2 * t3 * t4 + t1 * t2 * t3 * t4
    directed += [("repeated-reference-names-in-call", refnames_call, [ft, ft]), ("repeated-reference-names", refnames_top, [ft, ft])]
    # argument names: names whose concatenation is ambiguous (readable reference names are joined from operand names), names that spell a constant
    def ambiguous_names(ctx, a_b, c, a, b_c):
        t1 = a_b + c
        t2 = a + b_c
        t3 = a_b * c
        t4 = a * b_c
        return t1 * t1 + t2 / (t2 + c) + t3 * t3 - t4 * t4
    ambiguous_names.argnames = ["a_b", "c", "a", "b_c"]
    def constant_like_names(ctx, inf, nan, pi):
        t = inf + nan
        return t * t + pi * t
    constant_like_names.argnames = ["inf", "nan", "pi"]
    def keyword_like_names(ctx, result, numpy_, x_0_):
        t = result - numpy_
        return t * t + x_0_ * t
    keyword_like_names.argnames = ["result", "numpy_", "x_0_"]
    # a user variable that is named like an auto-generated reference name; a named expression that the rewriter replaces by an argument
    def user_name_like_auto(ctx, x, y):
        abs_x = (x * y).reference("abs_x")
        return ctx(abs_x * abs_x + abs(x) * abs(x))
    user_name_like_auto.argnames = ["x", "y"]
    def auto_first_then_user_name(ctx, x, y):
        u = abs(x) * abs(x)
        v = (x - y).reference("abs_x")
        return ctx(u + v * v)
    auto_first_then_user_name.argnames = ["x", "y"]
    def named_identity_of_argument(ctx, x, y):
        t = (x * ctx.constant(1, x)).reference("t")
        return ctx(t * y + t)
    named_identity_of_argument.argnames = ["x", "y"]
    directed += [("user-name-like-auto-name", user_name_like_auto, [ft, ft]), ("auto-name-then-user-name", auto_first_then_user_name, [ft, ft]),
                 ("named-identity-of-argument", named_identity_of_argument, [ft, ft])]
    directed += [("ambiguous-joined-names", ambiguous_names, [ft, ft, ft, ft]), ("argument-names-that-spell-constants", constant_like_names, [ft, ft, ft]),
                 ("argument-names-like-internals", keyword_like_names, [ft, ft, ft])]
    # integer-valued literals meeting in a division / remainder (C++: an int literal on both sides is an integer division)
    directed += [
        ("integer-literals-in-division", lambda ctx, a, b: ctx.select(a < b, ctx.constant(1, a), ctx.constant(3, a)) / ctx.constant(2, a) + a, [ft64, ft64]),
        ("integer-literals-in-division-2", lambda ctx, a: ctx.constant(7, a) / ctx.constant(2, a) * a + ctx.constant(1, a) / a, [ft64]),
    ]
    if ct is not None:
        directed += [
            # sums only: the C++ reference does not model complex * complex (libgcc __mulsc3)
            ("complex-typed-long-literals", lambda ctx, z: (z + ctx.constant(1 / 3, z)) + (ctx.constant(math.pi, z) - z) - ctx.constant(0.6931471805599453, z), [ct]),
            ("complex-typed-long-literals-wide", lambda ctx, z: (z + ctx.constant(1 / 3, z)) + (ctx.constant(math.pi, z) - z) - ctx.constant(-1.2345678901234567, z), [ct64]),
            ("complex-typed-long-literal-single", lambda ctx, z: z + ctx.constant(1 / 3, z), [ct64]),
            ("complex-constant-long-parts", lambda ctx, z: z + ctx.constant(complex(1 / 3, -math.pi), z), [ct64]),
            ("complex-constant-inf-part", lambda ctx, z: z + ctx.constant(complex(math.inf, -0.0), z), [ct]),
            ("complex-constant-neginf-nan-parts", lambda ctx, z: z + ctx.constant(complex(-math.inf, 3.0), z) + ctx.constant(complex(0.0, -math.inf), z), [ct]),
        ]
        for cname in target.constant_to_target:
            directed.append((f"complex-typed-named-constant:{cname}", (lambda ctx, z, cname=cname: z + ctx.constant(cname, z)), [ct]))
        directed += [
            ("complex-constant-signed-zero-parts", lambda ctx, z: z + ctx.constant(complex(-4.0, -0.0), z), [ct]),
            ("complex-constant-negative-zero-real", lambda ctx, z: z + ctx.constant(complex(-0.0, 2.0), z), [ct]),
            ("complex-constant-negative-parts", lambda ctx, z: z * ctx.constant(complex(-1.5, -2.25), z) if tname == "numpy" else z + ctx.constant(complex(-1.5, -2.25), z), [ct]),
            ("complex-infinity-constant", lambda ctx, z: ctx.constant("posinf", z) if False else ctx.real(z * ctx.constant("posinf", ctx.real(z))), [ct]),
            ("complex-constant", lambda ctx, z: z * ctx.constant(2.0, z) + ctx.constant(1.5, z), [ct]),
            ("complex-from-mixed-parts", lambda ctx, a, b: ctx.complex(a, a) if tname == "numpy" else ctx.complex(b, a), [ft, ft64]),
            ("complex-from-mixed-parts-2", lambda ctx, a, b: ctx.complex(a, a) if tname == "numpy" else ctx.complex(a, b), [ft, ft64]),
            ("complex-typed-infinity", lambda ctx, z: z + ctx.constant("posinf", z), [ct]),
            ("complex-typed-nan", lambda ctx, z: z + ctx.constant("nan", z), [ct]),
            ("real-imag-swap", lambda ctx, z: ctx.complex(ctx.imag(z) - ctx.real(z), ctx.real(z) / ctx.imag(z)), [ct]),
        ]
    for label, fn, sig in directed:
        progs.append((f"directed:{label}", ("fn", fn, sig)))
        progs.append((f"directed-norewrite:{label}", ("fn-norewrite", fn, sig)))
    kinds = [k for k, v in target.kind_to_target.items() if v is not NotImplemented] + ["square", "hypot"]
    consts = [0, 1, 2, -1, 0.5, 1.5, 3, 0.1, 2.0, 1e-3, 1e10]
    named = [k for k in ("pi", "largest", "smallest", "posinf", "neginf") if k in target.constant_to_target]
    fts, cts = {"python": (["float"], ["complex"]), "numpy": (["float32", "float64"], ["complex64", "complex128"]), "cpp": (["float32", "float64"], ["complex64", "complex128"])}[tname]
    pg = ProgGen(rnd, fts, cts, kinds, consts, named)
    for i in range(ngen):
        fn, sig = pg.make()
        progs.append((f"gen:{i}", ("fn", fn, sig)))
    return target, progs


def build_graph(fa, target, spec, name):
    from functional_algorithms import rewrite

    if spec[0] == "shipped":
        _, fname, sig, i = spec
        ctx = fa.Context(paths=[fa.algorithms])
        with warnings.catch_warnings():
            warnings.simplefilter("ignore")
            with contextlib.redirect_stdout(io.StringIO()):
                g = ctx.trace(getattr(fa.algorithms, fname), *sig).rewrite(target, rewrite)
        g.props.update(name=name)
        # the signature actually traced (trace_arguments may list more entries than the function has parameters)
        return g, [str(p.operands[1]) for p in g.operands[1:-1] if p.kind == "symbol"]
    fn, sig = spec[1], spec[2]
    g = trace_program(fa, fn, sig, target, name, rewrite, algebraic=(spec[0] != "fn-norewrite"))
    return g, list(sig)


def nontrivial(src):
    return src.count("=") > 2 or "where" in src or " if " in src or "?" in src


# ------------------------------------------------------------------------------------------------ Python / NumPy targets
def run_exec_target(rec, fa, tname, rnd, ngen, ninputs):
    target, progs = collect_programs(fa, tname, rnd, ngen)
    debug_levels = (0, 1) if tname == "numpy" else (None,)
    for idx, (label, spec) in enumerate(progs):
        name = f"p{idx}"
        try:
            g, sig = build_graph(fa, target, spec, name)
        except NotImplementedError:
            rec.count(f"refused:{tname}:trace")
            continue
        except (AssertionError, TypeError, KeyError, AttributeError, ValueError, RuntimeError) as e:
            if label.startswith(("unit", "gen", "directed")):  # incl. the -norewrite variants
                rec.count(f"generator-refused:{tname}:{type(e).__name__}")
                continue
            rec.violation(f"{tname}:trace-raises", dict(program=label, exc=f"{type(e).__name__}: {e}"[:300]))
            continue
        fname = g.props.get("name", g.operands[0].operands[0] if hasattr(g.operands[0], "operands") else name)
        for dbg in debug_levels:
            rec.count("programs")
            rec.count("programs:" + tname)
            if label.startswith("unit"):
                rec.count("table-entries:exercised")
            try:
                with warnings.catch_warnings():
                    warnings.simplefilter("ignore")
                    src = g.tostring(target) if dbg is None else g.tostring(target, debug=dbg)
            except NotImplementedError:
                rec.count(f"refused:{tname}:print")
                continue
            except Exception as e:
                rec.violation(f"{tname}:emit-raises:{type(e).__name__}", dict(program=label, graph=describe(g.operands[-1]), exc=f"{type(e).__name__}: {e}"[:300]))
                continue
            # loads?
            # the emitted text is loaded the way a generated file is: after the target's own source_file_header (imports and helpers such as
            # make_complex come from there, not from the harness)
            env = {}
            try:
                exec(compile(target.source_file_header, f"<{tname}:header>", "exec"), env)
            except Exception as e:
                rec.violation(f"{tname}:header-does-not-load:{type(e).__name__}", dict(exc=f"{type(e).__name__}: {e}"[:300]))
                continue
            try:
                code = compile(src, f"<{tname}:{label}>", "exec")
                exec(code, env)
                f = env[str(fname) if str(fname) in env else name]
            except Exception as e:
                rec.violation(f"{tname}:does-not-load:{type(e).__name__}", dict(program=label, exc=f"{type(e).__name__}: {e}"[:300], source=src[-600:]))
                continue
            # single assignment, no sharing
            try:
                probs = single_assignment_python(src, fname)
            except SyntaxError:
                probs = []
            if probs:
                rec.violation(f"{tname}:single-assignment", dict(program=label, problems=probs[:5], source=src[-800:]))
            shared = sharing_problems(g, set(assigned_names_python(src)))
            if shared:
                r_, es = next(iter(shared.items()))
                rec.violation(f"{tname}:variable-shared-by-distinct-expressions", dict(program=label, variable=r_, expressions=[describe(e) for e in es[:3]],
                                                                                   types=[str(e.get_type()) for e in es[:3]]))
            if nontrivial(src):
                rec.cls(tname, label if not label.startswith("gen") else "gen", hash(src) % 100000)
            # differential execution
            inputs = scalar_inputs(rnd, sig, ninputs, pytypes=(tname == "python"))
            ref = refinterp.eval_pymath if tname == "python" else refinterp.eval_npscalar
            for args in inputs:
                rec.count("executions:" + tname)
                rec.count("evaluations")
                try:
                    want = ref(g, args)
                    ref_exc = None
                except RefRaised as e:
                    ref_exc, want = str(e), None
                except Unsupported as e:
                    rec.count(f"reference-unsupported:{tname}:{str(e)[:30]}")
                    break
                except Exception as e:
                    rec.count(f"reference-error:{tname}:{type(e).__name__}")
                    break
                try:
                    with warnings.catch_warnings():
                        warnings.simplefilter("ignore")
                        with numpy.errstate(all="ignore"):
                            got = f(*args)
                    got_exc = None
                except (ZeroDivisionError, ValueError, OverflowError) as e:
                    got_exc, got = type(e).__name__, None
                except TypeError as e:
                    if ref_exc is not None:
                        got_exc, got = "TypeError", None  # e.g. Python's float ** float returning a complex: the reference raises as well
                    else:
                        rec.violation(f"{tname}:execution-raises:TypeError", dict(program=label, args=list(args), exc=f"TypeError: {e}"[:300], source=src[-700:]))
                        break
                except AssertionError as e:
                    rec.count(f"{tname}:debug-assertion (C08)")
                    break
                except Exception as e:
                    rec.violation(f"{tname}:execution-raises:{type(e).__name__}", dict(program=label, args=list(args), exc=f"{type(e).__name__}: {e}"[:300], source=src[-700:]))
                    break
                rec.count("disagreements_checked")
                if ref_exc is not None:
                    continue  # the reference itself raises on this input (eager evaluation): not comparable
                if got_exc is not None:
                    rec.violation(f"{tname}:raises-where-reference-returns", dict(program=label, args=list(args), exc=got_exc, reference=want, graph=describe(g.operands[-1])))
                    break
                if not same_value(got, want, loose_type=(tname == "python")) and not minmax_ambiguous(g, args, tname):
                    rec.violation(f"{tname}:value-differs", dict(program=label, args=list(args), got=got, reference=want, graph=describe(g.operands[-1]), source=src[-900:]))
                    break
        if idx < 2:
            rec.sample(dict(target=tname, program=label, signature=[str(s) for s in sig], source_head=src[:300] if 'src' in dir() else None))


def run_list_arguments(rec, fa, rnd, ninputs):
    """NumPy target: functions with list-typed arguments / results, both argument-casting modes, debug 0 and 1.
    The reference is the same formula on NumPy scalars (the programs use only + - * on float32/float64)."""
    from functional_algorithms import rewrite

    target = fa.targets.numpy
    f32, f64 = numpy.float32, numpy.float64

    def l1(ctx, x: list[f32, f32], y: f32):
        a = x[0] + y
        b = x[1] * a
        return [a * b * x[0], b - y]

    def l2(ctx, x: list[f64, f64, f64], y: list[f64, f64]):
        s = x[0] * y[0] + x[1] * y[1]
        t = (s - x[2]) * (s + x[2])
        return ctx.Expr("list", (t * s, t - s, x[2] * y[1])) if hasattr(ctx, "Expr") else [t * s, t - s, x[2] * y[1]]

    def l3(ctx, x: list[f32, f32], y: f32):
        return x[0] * x[0] - y * x[1] + x[0]

    refs = {
        "l1": (lambda x, y: (lambda a: (lambda b: [a * b * x[0], b - y])(x[1] * a))(x[0] + y), [("list", f32, 2), ("scalar", f32)]),
        "l2": (lambda x, y: (lambda s: (lambda t: [t * s, t - s, x[2] * y[1]])((s - x[2]) * (s + x[2])))(x[0] * y[0] + x[1] * y[1]), [("list", f64, 3), ("list", f64, 2)]),
        "l3": (lambda x, y: x[0] * x[0] - y * x[1] + x[0], [("list", f32, 2), ("scalar", f32)]),
    }
    for fn in (l1, l2, l3):
        ref, shape = refs[fn.__name__]
        for algebraic in (True, False):
            ctx = fa.Context(paths=[fa.algorithms])
            try:
                with warnings.catch_warnings():
                    warnings.simplefilter("ignore")
                    with contextlib.redirect_stdout(io.StringIO()):
                        g = ctx.trace(fn)
                        g = g.rewrite(target, rewrite) if algebraic else g.rewrite(target)
            except Exception as e:
                rec.count(f"generator-refused:numpy:list:{type(e).__name__}")
                continue
            for dbg in (0, 1):
                for cast in (None, True, False):
                    label = f"list-arguments:{fn.__name__}:{'rewritten' if algebraic else 'norewrite'}:debug={dbg}:cast={cast}"
                    rec.count("programs")
                    rec.count("programs:numpy")
                    rec.count("programs:numpy:list-arguments")
                    try:
                        with warnings.catch_warnings():
                            warnings.simplefilter("ignore")
                            src = g.tostring(target, debug=dbg) if cast is None else g.tostring(target, debug=dbg, force_cast_arguments=cast)
                    except Exception as e:
                        rec.violation(f"numpy:emit-raises:{type(e).__name__}", dict(program=label, exc=f"{type(e).__name__}: {e}"[:300]))
                        continue
                    env = dict(numpy=numpy, math=math, sys=__import__("sys"), warnings=warnings, make_complex=fa.utils.make_complex)
                    try:
                        exec(compile(src, f"<numpy:{label}>", "exec"), env)
                        f = env[fn.__name__]
                    except Exception as e:
                        rec.violation(f"numpy:does-not-load:{type(e).__name__}", dict(program=label, exc=f"{type(e).__name__}: {e}"[:300], source=src[-600:]))
                        continue
                    try:
                        probs = single_assignment_python(src, fn.__name__)
                    except SyntaxError:
                        probs = []
                    probs = [p_ for p_ in probs if not p_.startswith(("x ", "y "))]
                    if probs:
                        rec.violation("numpy:single-assignment", dict(program=label, problems=probs[:5], source=src[-800:]))
                    rec.cls("numpy", "list-arguments", hash(src) % 100000)
                    for _ in range(ninputs):
                        args = []
                        with numpy.errstate(all="ignore"):
                          for sh in shape:
                            draw = lambda t: t(rnd.choice(HOSTILE) * rnd.choice([1, -1]) if rnd.random() < 0.5 else rnd.uniform(-4, 4))
                            args.append([draw(sh[1]) for _ in range(sh[2])] if sh[0] == "list" else draw(sh[1]))
                        rec.count("executions:numpy")
                        rec.count("evaluations")
                        with warnings.catch_warnings():
                            warnings.simplefilter("ignore")
                            with numpy.errstate(all="ignore"):
                                want = ref(*args)
                                try:
                                    with contextlib.redirect_stdout(io.StringIO()):
                                        got = f(*args)
                                except AssertionError:
                                    rec.count("numpy:debug-assertion (C08)")
                                    break
                                except Exception as e:
                                    rec.violation(f"numpy:execution-raises:{type(e).__name__}", dict(program=label, args=repr(args)[:300], exc=f"{type(e).__name__}: {e}"[:300], source=src[-900:]))
                                    break
                        rec.count("disagreements_checked")
                        gl, wl = (list(got), list(want)) if isinstance(want, list) else ([got], [want])
                        if len(gl) != len(wl) or not all(same_value(a_, b_) for a_, b_ in zip(gl, wl)):
                            rec.violation("numpy:value-differs", dict(program=label, args=repr(args)[:300], got=repr(got)[:200], reference=repr(want)[:200], source=src[-900:]))
                            break


def minmax_ambiguous(g, args, tname):
    """(retired) the reference interpreters implement exactly the primitive each target prints - Python's builtin max/min for the Python and NumPy
    targets, std::max / std::min for C++ - evaluated in the printed operand order, so a result that differs at a tie (+-0) or a NaN operand is a
    difference like any other (a seeded swap of the NumPy minimum operands hid behind the former exemption)"""
    return False


# ------------------------------------------------------------------------------------------------ C++ target
CT = {"float32": ("float", ctypes.c_float, numpy.float32), "float64": ("double", ctypes.c_double, numpy.float64), "float": ("double", ctypes.c_double, numpy.float64)}
CC = {"complex64": "float32", "complex128": "float64", "complex": "float64"}


def cpp_wrapper(name, sig, rtype):
    """extern "C" wrapper taking real/imag parts as separate scalars and writing results through pointers"""
    params, call = [], []
    for i, t in enumerate(sig):
        t = str(t).lstrip(":")
        if t in CC:
            ct = CT[CC[t]][0]
            params += [f"{ct} a{i}r", f"{ct} a{i}i"]
            call.append(f"std::complex<{ct}>(a{i}r, a{i}i)")
        else:
            ct = CT[t][0]
            params.append(f"{ct} a{i}")
            call.append(f"a{i}")
    if rtype in CC:
        ct = CT[CC[rtype]][0]
        return f'extern "C" void w_{name}({", ".join(params)}, {ct}* out) {{ auto r = {name}({", ".join(call)}); out[0] = r.real(); out[1] = r.imag(); }}\n'
    ct = CT[rtype][0]
    return f'extern "C" void w_{name}({", ".join(params)}, {ct}* out) {{ out[0] = {name}({", ".join(call)}); }}\n'


def run_cpp(rec, fa, rnd, ngen, ninputs, sanitize):
    target, progs = collect_programs(fa, "cpp", rnd, ngen)
    units = []
    src_all = target.source_file_header + "\n#include <cmath>\n"
    for idx, (label, spec) in enumerate(progs):
        name = f"p{idx}"
        try:
            g, sig = build_graph(fa, target, spec, name)
            g.props.update(name=name)
        except NotImplementedError:
            rec.count("refused:cpp:trace")
            continue
        except (AssertionError, TypeError, KeyError, AttributeError, ValueError, RuntimeError) as e:
            if label.startswith(("unit", "gen", "directed")):  # incl. the -norewrite variants
                rec.count(f"generator-refused:cpp:{type(e).__name__}")
                continue
            rec.violation("cpp:trace-raises", dict(program=label, exc=f"{type(e).__name__}: {e}"[:300]))
            continue
        rec.count("programs")
        rec.count("programs:cpp")
        if label.startswith("unit"):
            rec.count("table-entries:exercised")
        try:
            with warnings.catch_warnings():
                warnings.simplefilter("ignore")
                src = g.tostring(target)
        except NotImplementedError:
            rec.count("refused:cpp:print")
            continue
        except Exception as e:
            rec.violation(f"cpp:emit-raises:{type(e).__name__}", dict(program=label, graph=describe(g.operands[-1]), exc=f"{type(e).__name__}: {e}"[:300]))
            continue
        rtype = str(g.operands[-1].get_type())
        if rtype not in CT and rtype not in CC:
            rec.count("cpp:skipped-result-type:" + rtype)
            continue
        if any(str(t).lstrip(":") not in CT and str(t).lstrip(":") not in CC for t in sig):
            rec.count("cpp:skipped-arg-type")
            continue
        units.append(dict(label=label, name=name, g=g, sig=sig, rtype=rtype, src=src))
    # compile each unit separately for syntax first (cheap, isolates failures), then one shared object
    tmp = tempfile.mkdtemp(prefix="vf-c05-", dir="/var/tmp")
    try:
        good = []
        for u in units:
            one = os.path.join(tmp, u["name"] + ".cpp")
            with open(one, "w") as fh:
                fh.write(src_all + u["src"] + "\n" + cpp_wrapper(u["name"], u["sig"], u["rtype"]))
            p = subprocess.run(["g++", "-std=c++17", "-fsyntax-only", one], capture_output=True, text=True)
            if p.returncode != 0:
                err = [ln for ln in p.stderr.splitlines() if "error" in ln][:2]
                rec.violation("cpp:does-not-compile", dict(program=u["label"], errors=err, source=u["src"][-700:]))
                continue
            good.append(u)
            # single assignment / sharing on the text
            body = u["src"].splitlines()
            args = re.findall(r"(\w+)\s*[,)]", body[0]) if body else []
            probs, bound = single_assignment_cpp(body[1:], args)
            if probs:
                rec.violation("cpp:single-assignment", dict(program=u["label"], problems=probs[:5], source=u["src"][-700:]))
            shared = sharing_problems(u["g"], bound - set(args))
            if shared:
                r_, es = next(iter(shared.items()))
                rec.violation("cpp:variable-shared-by-distinct-expressions", dict(program=u["label"], variable=r_, expressions=[describe(e) for e in es[:3]], types=[str(e.get_type()) for e in es[:3]]))
            if nontrivial(u["src"]):
                rec.cls("cpp", u["label"] if not u["label"].startswith("gen") else "gen", hash(u["src"]) % 100000)
        if not good:
            return
        big = os.path.join(tmp, "all.cpp")
        with open(big, "w") as fh:
            fh.write(src_all + "\n".join(u["src"] + "\n" + cpp_wrapper(u["name"], u["sig"], u["rtype"]) for u in good))
        builds = [("g++-O1", ["g++", "-std=c++17", "-O1", "-ffp-contract=off", "-fno-builtin", "-frounding-math", "-shared", "-fPIC", big, "-o", os.path.join(tmp, "all_O1.so")]),
                  ("g++-O0", ["g++", "-std=c++17", "-O0", "-ffp-contract=off", "-fno-builtin", "-shared", "-fPIC", big, "-o", os.path.join(tmp, "all_O0.so")])]
        libs = []
        for bname, cmd in builds:
            p = subprocess.run(cmd, capture_output=True, text=True)
            if p.returncode != 0:
                rec.inconc(f"batch build {bname} failed although every unit passed -fsyntax-only: {p.stderr[-500:]}")
                continue
            libs.append((bname, ctypes.CDLL(cmd[-1])))
        for u in good:
            inputs = scalar_inputs(rnd, u["sig"], ninputs)
            for args in inputs:
                rec.count("executions:cpp")
                rec.count("evaluations")
                try:
                    want = refinterp.eval_libm(u["g"], args)
                except Unsupported as e:
                    rec.count(f"reference-unsupported:cpp:{str(e)[:30]}")
                    break
                except Exception as e:
                    rec.count(f"reference-error:cpp:{type(e).__name__}")
                    break
                for bname, lib in libs:
                    got = call_cpp(lib, u, args)
                    rec.count("disagreements_checked")
                    if not same_value(got, want) and not minmax_ambiguous(u["g"], args, "cpp"):
                        isf32 = any(str(t).lstrip(":") in ("float32", "complex64") for t in u["sig"])
                        rec.violation("cpp:value-differs" + (":float32" if isf32 else ":float64"), dict(program=u["label"], build=bname, args=list(args), got=got, reference=want, graph=describe(u["g"].operands[-1]), source=u["src"][-900:]))
                        break
                else:
                    continue
                break
        if sanitize:
            exe_src = os.path.join(tmp, "san.cpp")
            # a small driver: call every wrapper on a fixed hostile input table under ASan+UBSan
            drv = ["#include <cstdio>", src_all]
            calls = []
            for u in good:
                drv.append(u["src"])
                drv.append(cpp_wrapper(u["name"], u["sig"], u["rtype"]))
                nargs = sum(2 if str(t).lstrip(":") in CC else 1 for t in u["sig"])
                ct = CT[CC.get(u["rtype"], u["rtype"])][0]
                calls.append(f"  for (int i = 0; i + {nargs} <= NV; ++i) {{ {ct} out[2] = {{0, 0}}; w_{u['name']}({', '.join(f'({ct if False else chr(40)}double{chr(41)}V[i+{j}])' if False else f'V[i+{j}]' for j in range(nargs))}, out); acc += out[0] != out[0] ? 1 : 0; }}")
            vals = ", ".join(repr(v) if math.isfinite(v) else ("INFINITY" if v > 0 else "-INFINITY") if not math.isnan(v) else "NAN" for v in [h * s for h in HOSTILE for s in (1, -1)])
            drv.append(f"static const double V[] = {{{vals}}};\nstatic const int NV = sizeof(V)/sizeof(V[0]);\nint main() {{ long acc = 0;\n" + "\n".join(calls) + '\n  std::printf("%ld\\n", acc); return 0; }\n')
            with open(exe_src, "w") as fh:
                fh.write("\n".join(drv))
            exe = os.path.join(tmp, "san")
            p = subprocess.run(["clang++-14", "-std=c++17", "-O1", "-g", "-fsanitize=address,undefined", "-fno-sanitize-recover=all", "-fno-sanitize=float-divide-by-zero", exe_src, "-o", exe], capture_output=True, text=True)
            if p.returncode != 0:
                rec.inconc("sanitizer build failed: " + p.stderr[-400:])
            else:
                q = subprocess.run([exe], capture_output=True, text=True, env=dict(os.environ, ASAN_OPTIONS="halt_on_error=1:abort_on_error=0:detect_leaks=0", UBSAN_OPTIONS="halt_on_error=1:print_stacktrace=1"), timeout=600)
                rec.count("sanitizer:runs")
                rec.count("sanitizer:calls", len(good) * len(HOSTILE) * 2)
                if q.returncode != 0:
                    rec.violation("cpp:sanitizer-report", dict(report=(q.stderr or q.stdout)[-1500:]))
    finally:
        shutil.rmtree(tmp, ignore_errors=True)
    if units:
        rec.sample(dict(target="cpp", program=units[0]["label"], source_head=units[0]["src"][:300]))


def call_cpp(lib, u, args):
    fn = getattr(lib, "w_" + u["name"])
    cargs = []
    for t, a in zip(u["sig"], args):
        t = str(t).lstrip(":")
        if t in CC:
            c = CT[CC[t]][1]
            cargs += [c(float(numpy.asarray(a).real)), c(float(numpy.asarray(a).imag))]
        else:
            cargs.append(CT[t][1](float(a)))
    rt = u["rtype"]
    base = CC.get(rt, rt)
    out = (CT[base][1] * 2)()
    fn.restype = None
    fn(*cargs, out)
    npt = CT[base][2]
    if rt in CC:
        return {numpy.float32: numpy.complex64, numpy.float64: numpy.complex128}[npt](complex(out[0], out[1]))
    return npt(out[0])


def task_target(params, rec):
    import functional_algorithms as fa

    os.environ["PATH"] = "/venv/bin:" + os.environ.get("PATH", "")
    rnd = random.Random(f"c05-{params['seed']}-{params['shard']}-{params['target']}")
    if params["target"] == "cpp":
        run_cpp(rec, fa, rnd, params["ngen"], params["ninputs"], params.get("sanitize", False))
    else:
        run_exec_target(rec, fa, params["target"], rnd, params["ngen"], params["ninputs"])
        if params["target"] == "numpy":
            run_list_arguments(rec, fa, rnd, params["ninputs"])


TASKS = {"target": task_target}
SHARD_TIMEOUT = {"quick": 2400, "thorough": 12000}


def plan(tier, seed):
    t = []
    ngen, nin, nsh = (25, 30, 3) if tier == "quick" else (500, 200, 5)
    for tname in ("python", "numpy", "cpp"):
        for s in range(nsh):
            t.append(("target", dict(target=tname, seed=seed, shard=s, ngen=ngen, ninputs=nin, sanitize=(tier == "thorough" and s == 0))))
    return t


def replay(site, witness, rec):
    tname = site.split(":")[0]
    task_target(dict(target=tname if tname in ("python", "numpy", "cpp") else "numpy", seed=0, shard=0, ngen=60, ninputs=40), rec)
