#!/bin/bash
# Idempotent, offline bootstrap: contract libraries beside the repo's interpreter + tiny C probe.
set -e
cd "$(dirname "$0")/.."
ROOT="$(pwd)"
if [ ! -d "$ROOT/.deps/icontract" ]; then
  PIP_NO_INDEX=1 /venv/bin/pip install -q --no-index --find-links /opt/veriftools/wheels --target "$ROOT/.deps" icontract deal >/dev/null 2>&1 || \
  PIP_NO_INDEX=1 /venv/bin/pip install -q --no-index --find-links /opt/veriftools/wheels --target "$ROOT/.deps" icontract >/dev/null 2>&1 || true
fi
mkdir -p "$ROOT/.build"
if [ ! -f "$ROOT/.build/libmxcsr_probe.so" ] || [ "$ROOT/vf/mxcsr_probe.c" -nt "$ROOT/.build/libmxcsr_probe.so" ]; then
  gcc -O1 -shared -fPIC -o "$ROOT/.build/libmxcsr_probe.so" "$ROOT/vf/mxcsr_probe.c"
fi
mkdir -p "$ROOT/evidence" "$ROOT/replays"
echo "bootstrap ok"
