import argparse
import json
import os
import sys
import time
import warnings


def main():
    ap = argparse.ArgumentParser()
    ap.add_argument("pid")
    ap.add_argument("--tier", default=os.environ.get("VERIF_TIER", "quick"), choices=["quick", "thorough"])
    ap.add_argument("--replay")
    ap.add_argument("--shard-task")
    ap.add_argument("--shard-params")
    ap.add_argument("--shard-out")
    ap.add_argument("--inline", action="store_true", help="run tasks in-process (debugging)")
    a = ap.parse_args()
    from . import core

    pid = a.pid.upper()
    if a.shard_task:
        core.run_shard(pid, a.shard_task, a.shard_params, a.shard_out)
        return 0
    warnings.simplefilter("ignore")
    core.assert_repo_under_test()
    seed = int(os.environ.get("VERIF_SEED", "0") or 0)
    mod = core.load(pid)
    rec = core.Recorder(pid)
    t0 = time.time()
    if a.replay:
        with open(a.replay) as f:
            rp = json.load(f)
        mod.replay(rp["site"], rp["witness"], rec)
        rc = core.finish(pid, a.tier, rp.get("seed", seed), mod, rec, t0, replay_mode=True)
        if rc == 0:
            print(f"replay: no violation reproduced for site {rp['site']}")
        return rc
    tasks = mod.plan(a.tier, seed)
    if a.inline:
        for name, params in tasks:
            mod.TASKS[name](params, rec)
    else:
        core.run_tasks(pid, tasks, rec, timeout=getattr(mod, "SHARD_TIMEOUT", {}).get(a.tier, 7200))
    if hasattr(mod, "post"):
        mod.post(a.tier, seed, rec)
    return core.finish(pid, a.tier, seed, mod, rec, t0)


if __name__ == "__main__":
    sys.exit(main())
