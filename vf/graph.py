"""E4: graph tooling — expand-all target XT and the vectorised DAG interpreter interp_np (independent of targets/*.py)."""
import types
import warnings

import numpy

ALWAYS = {"hypot", "square"}
COMPLEX = {"absolute", "acos", "acosh", "asin", "asinh", "atan", "atanh", "exp", "log", "log2", "log10", "log1p", "sqrt", "conjugate", "asin_acos_kernel"}
COMPLEX_FUNCS = ["absolute", "acos", "acosh", "asin", "asinh", "atan", "atanh", "exp", "log", "log2", "log10", "log1p", "sqrt", "square"]
REAL_FUNCS = ["absolute", "acos", "acosh", "asin", "asinh", "square"]


def make_xt():
    """target object handed to the repository's own modifier_base: withholds natives so that the package's own
    definitions expand every complex sub-operation (and hypot/square always)"""
    import functional_algorithms as fa
    from functional_algorithms import Expr
    from functional_algorithms.targets import numpy as npt, base

    class K2T:
        def __init__(self):
            self.cur = None

        def get(self, kind, default=None):
            e = self.cur
            if e is not None and e.kind == kind:
                if kind in ALWAYS:
                    return NotImplemented
                if kind in COMPLEX and any(isinstance(o, Expr) and o.get_type().is_complex for o in e.operands):
                    return NotImplemented
            if kind == "asin_acos_kernel":
                return NotImplemented
            return npt.kind_to_target.get(kind, default)

    T = types.SimpleNamespace(__name__="verif.xnumpy", kind_to_target=K2T())

    def mod(expr):
        T.kind_to_target.cur = expr
        try:
            return base.modifier_base(T, expr)
        finally:
            T.kind_to_target.cur = None

    T.__rewrite_modifier__ = mod
    return T


_XT = None


def expanded(fname, dtype, params=None):
    """trace fname at dtype and expand with the package's own definitions (+ the algebraic rewriter, as all targets do)"""
    global _XT
    import functional_algorithms as fa
    from functional_algorithms import rewrite

    if _XT is None:
        _XT = make_xt()
    ctx = fa.Context(paths=[fa.algorithms], parameters=params)
    args = (dtype,) if fname != "hypot" else (dtype, dtype)
    with warnings.catch_warnings():
        warnings.simplefilter("ignore")
        return ctx.trace(getattr(fa.algorithms, fname), *args).rewrite(_XT, rewrite)


def walk(e, seen=None, out=None):
    """all Expr nodes reachable from e (post-order, unique)"""
    from functional_algorithms import Expr

    if seen is None:
        seen, out = set(), []
    if not isinstance(e, Expr) or id(e) in seen:
        return out
    seen.add(id(e))
    for o in e.operands:
        walk(o, seen, out)
    out.append(e)
    return out


def complex_typed_kinds(g):
    """post-condition monitor for XT: kinds of complex-typed nodes"""
    kinds = set()
    for e in walk(g):
        if e.kind in ("apply", "list", "symbol") and e.kind != "symbol":
            continue
        try:
            if e.get_type().is_complex:
                kinds.add(e.kind)
        except Exception:
            pass
    return kinds


NPDT = {"float16": numpy.float16, "float32": numpy.float32, "float64": numpy.float64, "complex64": numpy.complex64, "complex128": numpy.complex128,
        "boolean": numpy.bool_, "boolean1": numpy.bool_, "integer64": numpy.int64, "integer32": numpy.int32, "integer": numpy.int64, "float": numpy.float64,
        "complex": numpy.complex128}


def np_dtype(t):
    return NPDT[str(t)]


UN = dict(absolute=numpy.abs, negative=numpy.negative, positive=numpy.positive, sqrt=numpy.sqrt, log=numpy.log, log1p=numpy.log1p, exp=numpy.exp,
          sin=numpy.sin, cos=numpy.cos, logical_not=numpy.logical_not, is_finite=numpy.isfinite, square=numpy.square, sign=numpy.sign,
          atan=numpy.arctan, atanh=numpy.arctanh, asin=numpy.arcsin, acos=numpy.arccos, asinh=numpy.arcsinh, acosh=numpy.arccosh, floor=numpy.floor,
          exp2=numpy.exp2, expm1=numpy.expm1, log2=numpy.log2, log10=numpy.log10, tan=numpy.tan, tanh=numpy.tanh, ceil=numpy.ceil, conjugate=numpy.conjugate,
          sinh=numpy.sinh, cosh=numpy.cosh, truncate=numpy.trunc)
BIN = dict(add=numpy.add, subtract=numpy.subtract, multiply=numpy.multiply, divide=numpy.divide, maximum=numpy.maximum, minimum=numpy.minimum,
           atan2=numpy.arctan2, hypot=numpy.hypot, lt=numpy.less, le=numpy.less_equal, gt=numpy.greater, ge=numpy.greater_equal, eq=numpy.equal,
           ne=numpy.not_equal, logical_and=numpy.logical_and, logical_or=numpy.logical_or, logical_xor=numpy.logical_xor, pow=numpy.power,
           copysign=numpy.copysign, remainder=numpy.remainder, floor_divide=numpy.floor_divide)


def const_value(value, dt):
    if isinstance(value, str):
        fdt = {numpy.complex64: numpy.float32, numpy.complex128: numpy.float64}.get(dt, dt)
        fi = numpy.finfo(fdt)
        v = dict(posinf=numpy.inf, neginf=-numpy.inf, pi=numpy.pi, nan=numpy.nan, undefined=numpy.nan, eps=fi.eps, largest=fi.max, smallest=fi.smallest_normal,
                 smallest_subnormal=fi.smallest_subnormal)[value]
        return dt(v)
    with warnings.catch_warnings():
        warnings.simplefilter("ignore")
        with numpy.errstate(all="ignore"):
            return dt(value)


def interp_np(graph, *args, coverage=None):
    """independent evaluation of an apply graph on numpy arrays in each node's static dtype.
    coverage: optional dict filled with {select-node-index: [n_true, n_false]}"""
    assert graph.kind == "apply"
    params = graph.operands[1:-1]
    env = {}
    for p, a in zip(params, args):
        env[id(p)] = a
    memo = {}
    sel_index = {}

    def ev(e):
        k = id(e)
        if k in memo:
            return memo[k]
        kind = e.kind
        if kind == "symbol":
            r = env[k]
        elif kind == "constant":
            value, like = e.operands
            r = const_value(value, np_dtype(like.get_type()))
        elif kind == "select":
            c, a, b = map(ev, e.operands)
            r = numpy.where(c, a, b)
            if coverage is not None:
                idx = sel_index.setdefault(k, len(sel_index))
                nt = int(numpy.count_nonzero(c)) if isinstance(c, numpy.ndarray) else (1 if c else 0)
                tot = int(numpy.size(c)) if isinstance(c, numpy.ndarray) else 1
                cv = coverage.setdefault(idx, [0, 0])
                cv[0] += nt
                cv[1] += tot - nt
        elif kind == "complex":
            a, b = map(ev, e.operands)
            a, b = numpy.broadcast_arrays(a, b)
            cdt = {numpy.dtype("float32"): numpy.complex64, numpy.dtype("float64"): numpy.complex128}[a.dtype]
            r = numpy.empty(a.shape, dtype=cdt)
            r.real = a
            r.imag = b
        elif kind == "real":
            r = ev(e.operands[0]).real
        elif kind == "imag":
            r = ev(e.operands[0]).imag
        elif kind in ("upcast", "downcast"):
            r = ev(e.operands[0]).astype(np_dtype(e.get_type()))
        elif kind in UN:
            r = UN[kind](ev(e.operands[0]))
        elif kind in BIN:
            r = BIN[kind](ev(e.operands[0]), ev(e.operands[1]))
        else:
            raise NotImplementedError(kind)
        memo[k] = r
        return r

    with warnings.catch_warnings():
        warnings.simplefilter("ignore")
        with numpy.errstate(all="ignore"):
            return ev(graph.operands[-1])


def count_selects(graph):
    return sum(1 for e in walk(graph) if e.kind == "select")


def make_complex(re, im):
    re, im = numpy.broadcast_arrays(re, im)
    cdt = {numpy.dtype("float32"): numpy.complex64, numpy.dtype("float64"): numpy.complex128}[re.dtype]
    z = numpy.empty(re.shape, dtype=cdt)
    z.real = re
    z.imag = im
    return z
