#!/bin/bash
# Runs the repository's unedited test suite on a scratch copy of /repo's working tree (guard off), 14 xdist workers.
# Usage: tools/run_repo_tests.sh [logfile]
LOG="${1:-/var/tmp/repo-test.log}"
rm -rf /var/tmp/repo-test && rsync -a --exclude .git /repo/ /var/tmp/repo-test/ && cd /var/tmp/repo-test && \
  (time env -u FA_VERIF /venv/bin/python -m pytest -q -p no:cacheprovider --timeout=900 -n 14 -q 2>&1 | tail -8) > "$LOG" 2>&1
rm -rf /var/tmp/repo-test
