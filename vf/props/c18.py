"""C18 — the FPU control context always restores MXCSR.

History monitor: real `with fpu.context(...)` / `@fpu.context(...)` uses are executed in nested histories (normal return and
exceptions at any depth); the register is observed before / inside / after every level with an independent C probe
(_mm_getcsr, vf/mxcsr_probe.c) and arithmetic is performed in C under the mode; the oracle is the register algebra.
"""
import ctypes
import itertools
import os
import random

LEVEL = "exploration"
RULE = ("histories = trees of nested contexts; exhaustive over all 45 argument combinations (FZ, DAZ in {None, False, True}; RN in {None, nearest, down, up, "
        "towardszero}) at depth 1 and all 2025 ordered pairs at depth 2 x {return, raise in the inner body, raise in the outer body after the inner exits} "
        "x {inline with, decorator / pre-created context objects built under a different ambient state}; random trees to depth 6 with sequential re-use of one "
        "context object; ambient MXCSR varied with the probe. distinct_nontrivial = distinct (depth, forms, argument tuples, exit kinds, ambient) histories "
        "in which at least one requested bit differs from the state at entry")
ASSUME = ["x86-64 SSE: MXCSR bit layout (FZ 15, RC 14:13, masks 12:7, DAZ 6, flags 5:0); the C probe library built by vf/bootstrap.sh"]
REQUIRE = ["evaluations", "events:enter", "events:exit-normal", "events:exit-exception", "events:decorator-call", "arith:checked", "depth2:pairs"]

ROOT = os.path.dirname(os.path.dirname(os.path.dirname(os.path.abspath(__file__))))

FZ_BIT, DAZ_BIT = 1 << 15, 1 << 6
RC_MASK = 3 << 13
STATUS = 0x3F
RCODE = dict(nearest=0, down=1, up=2, towardszero=3)
RNAME = {v: k for k, v in RCODE.items()}


def EXHAUSTIVE(tier):
    return "all 45 single contexts and all 2025 ordered pairs of argument combinations at nesting depth 2 x 3 exit kinds (inline form); pairs with a decorator-form inner context"


class Probe:
    def __init__(self):
        lib = ctypes.CDLL(os.path.join(ROOT, ".build", "libmxcsr_probe.so"))
        lib.vf_get_mxcsr.restype = ctypes.c_uint
        lib.vf_set_mxcsr.argtypes = [ctypes.c_uint]
        for n in ("vf_mul_bits", "vf_add_bits"):
            getattr(lib, n).restype = ctypes.c_uint32
            getattr(lib, n).argtypes = [ctypes.c_uint32, ctypes.c_uint32]
        self.lib = lib

    def get(self):
        return int(self.lib.vf_get_mxcsr())

    def set(self, v):
        self.lib.vf_set_mxcsr(int(v))

    def modes(self):
        """observe the arithmetic mode by float32 arithmetic done in C on bit patterns: (ftz?, daz?, rounding name).
        The register (incl. the sticky status flags the probing raises) is put back afterwards: observing leaves no trace."""
        saved = self.get()
        mul, add = self.lib.vf_mul_bits, self.lib.vf_add_bits
        MIN_NORMAL, HALF, SUB, TWO60 = 0x00800000, 0x3F000000, 0x00000001, 0x5D800000
        ONE, MONE, P24, M25, M24 = 0x3F800000, 0xBF800000, 0x33800000, 0xB3000000, 0xB3800000
        ftz = mul(MIN_NORMAL, HALF) == 0
        daz = mul(SUB, TWO60) == 0
        a = add(ONE, P24)      # 1 + 2^-24
        b = add(ONE, M25)      # 1 - 2^-25
        c = add(MONE, M24)     # -1 - 2^-24
        self.set(saved)
        if a != ONE:
            rn = "up"
        elif c != MONE:
            rn = "down"
        elif b != ONE:
            rn = "towardszero"
        else:
            rn = "nearest"
        return bool(ftz), bool(daz), rn


class Boom(Exception):
    pass


def expected_after_enter(before, args):
    v = before
    if args.get("RN") is not None:
        v = (v & ~RC_MASK) | (RCODE[args["RN"]] << 13)
    if args.get("FZ") is not None:
        v = (v | FZ_BIT) if args["FZ"] else (v & ~FZ_BIT)
    if args.get("DAZ") is not None:
        v = (v | DAZ_BIT) if args["DAZ"] else (v & ~DAZ_BIT)
    return v


def modes_of(v):
    # FTZ only takes effect while the underflow exception is masked (always so here); DAZ analogously
    return bool(v & FZ_BIT), bool(v & DAZ_BIT), RNAME[(v >> 13) & 3]


class Runner:
    def __init__(self, rec, fpu, probe):
        self.rec, self.fpu, self.probe = rec, fpu, probe
        self.hist = None
        self.bad = False

    def violation(self, site, **kw):
        self.bad = True
        self.rec.violation(site, dict(history=self.hist, **kw))

    def check_arith(self, where, reg):
        got = self.probe.modes()
        exp = modes_of(reg)
        self.rec.count("arith:checked")
        if got != exp:
            self.violation("arithmetic-mode-" + where, register=hex(reg), observed=list(got), expected=list(exp))

    def body(self, node, before, path):
        inside = self.probe.get()
        self.rec.count("events:enter")
        exp = expected_after_enter(before, node["args"])
        if (inside & ~STATUS) != (exp & ~STATUS):
            form = node["form"]
            self.violation("enter-changes-unrequested-bits" + ("-late-bound" if form != "with" else ""), path=path, before=hex(before), inside=hex(inside), expected=hex(exp), args=node["args"], form=form)
        self.check_arith("inside", inside)
        for i, ch in enumerate(node.get("children", [])):
            try:
                self.run(ch, path + [i])
            except Boom:
                if ch.get("catch_here", True) is False:
                    raise
        if node.get("poke"):
            # the body (or a library it calls) writes the register itself: flips control bits the context did or did not manage, clears an
            # exception mask, raises sticky flags.  "On exit the register holds exactly the value it had on entry" covers that as well.
            self.probe.set(self.probe.get() ^ node["poke"])
            self.rec.count("events:body-writes-register")
        if node.get("raises"):
            raise Boom()

    def run(self, node, path):
        probe = self.probe
        before = probe.get()
        form = node["form"]
        raised = False
        try:
            try:
                if form == "with":
                    with self.fpu.context(**node["args"]):
                        self.body(node, before, path)
                elif form == "precreated":
                    with node["cm"]:
                        self.body(node, before, path)
                elif form == "decorator":
                    self.rec.count("events:decorator-call")
                    node["fn"](self, node, before, path)
                else:
                    raise ValueError(form)
            except Boom:
                raised = True
                raise
            except AssertionError as e:
                # the package refuses (loudly) to re-enter a context object that is already active
                self.rec.count("refused:reentry")
                if not node.get("reentrant"):
                    self.violation("unexpected-assertion", path=path, exc=str(e)[:200])
        finally:
            after = probe.get()
            self.rec.count("events:exit-exception" if raised else "events:exit-normal")
            if after != before:
                self.violation("exit-does-not-restore" + ("-after-exception" if raised else ""), path=path, before=hex(before), after=hex(after), args=node["args"], form=form)
                probe.set(before)  # first: a leaked unmasked exception would turn the next floating-point operation into SIGFPE; then keep judging from a sane state
            else:
                self.check_arith("after-exit", after)

    def run_history(self, ambient, tree, desc):
        self.hist = desc
        self.bad = False
        self.probe.set(ambient)
        try:
            self.run(tree, [])
        except Boom:
            pass
        end = self.probe.get()
        if end != ambient and not self.bad:
            self.violation("history-end-state", ambient=hex(ambient), end=hex(end))
        self.probe.set(0x1F80)
        self.rec.count("evaluations")


def prepare(fpu, probe, node, create_ambient):
    """build decorator / pre-created forms under `create_ambient` (a state different from the one they will run under)"""
    for ch in node.get("children", []):
        prepare(fpu, probe, ch, create_ambient)
    if node["form"] in ("precreated", "decorator"):
        saved = probe.get()
        probe.set(create_ambient)
        if node["form"] == "precreated":
            node["cm"] = fpu.context(**node["args"])
        else:
            @fpu.context(**node["args"])
            def fn(runner, nd, before, path):
                runner.body(nd, before, path)

            node["fn"] = fn
        probe.set(saved)


def strip(node):
    return dict(form=node["form"], args=node["args"], raises=bool(node.get("raises")), poke=hex(node.get("poke", 0)), children=[strip(c) for c in node.get("children", [])])


ARGSETS = [dict(FZ=a, DAZ=b, RN=c) for a, b, c in itertools.product([None, False, True], [None, False, True], [None, "nearest", "down", "up", "towardszero"])]
AMBIENTS = [0x1F80, 0x1F80 | FZ_BIT, 0x1F80 | DAZ_BIT | (1 << 13), 0x1F80 | FZ_BIT | DAZ_BIT | (3 << 13), 0x1F80 | (2 << 13) | 0x21, 0x1F80 | 0x3F]


def nontrivial(ambient, tree):
    """does some level request a bit different from what it finds?"""
    def rec_(v, node):
        e = expected_after_enter(v, node["args"])
        if (e ^ v) & ~STATUS:
            return True
        return any(rec_(e, c) for c in node.get("children", []))

    return rec_(ambient, tree)


def mods():
    from functional_algorithms import fpu

    return fpu


POKES = [0x8000, 0x0040, 0x2000, 0x4000, 0x6000, 0x0800, 0x1000, 0x003F, 0x0001, 0x8040, 0xE040]


def task_exhaustive(params, rec):
    fpu = mods()
    probe = Probe()
    R = Runner(rec, fpu, probe)
    idx = 0
    for i, a in enumerate(ARGSETS):
        if i % params["nshards"] != params["shard"]:
            continue
        # depth 1, every ambient, both exits, three forms
        for amb in AMBIENTS:
            for form in ("with", "precreated", "decorator"):
                for raises in (False, True):
                    tree = dict(form=form, args=a, raises=raises)
                    prepare(fpu, probe, tree, AMBIENTS[(AMBIENTS.index(amb) + 1) % len(AMBIENTS)])
                    R.run_history(amb, tree, dict(ambient=hex(amb), tree=strip(tree)))
                    if nontrivial(amb, tree):
                        rec.cls(1, form, tuple(sorted(a.items(), key=str)), raises, hex(amb))
        # depth 1 with a body that writes the register itself, every kind of write, both exits
        for pk in POKES:
            for raises in (False, True):
                for form in ("with", "decorator"):
                    amb = AMBIENTS[(i + pk) % len(AMBIENTS)]
                    tree = dict(form=form, args=a, raises=raises, poke=pk)
                    prepare(fpu, probe, tree, AMBIENTS[(AMBIENTS.index(amb) + 1) % len(AMBIENTS)])
                    R.run_history(amb, tree, dict(ambient=hex(amb), tree=strip(tree)))
                    rec.cls(1, form, "poke", hex(pk), raises, i)
        # depth 2: all ordered pairs
        for j, b in enumerate(ARGSETS):
            amb = AMBIENTS[(i + j) % len(AMBIENTS)]
            for kind in ("return", "raise-inner", "raise-outer"):
                tree = dict(form="with", args=a, raises=(kind == "raise-outer"), children=[dict(form="with", args=b, raises=(kind == "raise-inner"))])
                R.run_history(amb, tree, dict(ambient=hex(amb), tree=strip(tree)))
                rec.count("depth2:pairs")
                if nontrivial(amb, tree):
                    rec.cls(2, "with/with", i, j, kind)
            # inner decorator / pre-created built under the ambient state, called under the outer context
            for form in ("decorator", "precreated"):
                tree = dict(form="with", args=a, children=[dict(form=form, args=b, raises=((i + j) % 3 == 0))])
                prepare(fpu, probe, tree, amb)
                R.run_history(amb, tree, dict(ambient=hex(amb), tree=strip(tree)))
                if nontrivial(amb, tree):
                    rec.cls(2, "with/" + form, i, j)
            idx += 1
    rec.sample(dict(kind="depth-2 pair", ambient=hex(AMBIENTS[0]), outer=ARGSETS[params["shard"]], inner=ARGSETS[-1], exits=["return", "raise-inner", "raise-outer"]))


def rand_tree(rnd, depth, maxdepth, shared):
    form = rnd.choice(["with", "with", "precreated", "decorator", "shared"])
    args = rnd.choice(ARGSETS)
    node = dict(form=form, args=args, raises=rnd.random() < 0.2)
    if rnd.random() < 0.25:
        node["poke"] = rnd.choice(POKES)
    if form == "shared":
        # one context object re-used sequentially (and, sometimes, re-entered while active: a loud refusal is accepted)
        node["form"] = "precreated"
        node["shared"] = True
        node["args"] = shared["args"]
    if depth < maxdepth:
        node["children"] = [rand_tree(rnd, depth + 1, maxdepth, shared) for _ in range(rnd.choice([0, 1, 1, 2, 3]))]
        for c in node["children"]:
            c["catch_here"] = rnd.random() < 0.6
    return node


def mark_reentry(node, active):
    """a shared context object nested inside itself is a refusal, not a violation"""
    if node.get("shared"):
        if active:
            node["reentrant"] = True
        active = True
    for c in node.get("children", []):
        mark_reentry(c, active)
        if c.get("reentrant") or any_reentrant(c):
            pass


def any_reentrant(node):
    return node.get("reentrant") or any(any_reentrant(c) for c in node.get("children", []))


def prepare_shared(fpu, probe, node, shared_cm):
    if node.get("shared"):
        node["cm"] = shared_cm
    for c in node.get("children", []):
        prepare_shared(fpu, probe, c, shared_cm)


def task_random(params, rec):
    fpu = mods()
    probe = Probe()
    R = Runner(rec, fpu, probe)
    rnd = random.Random(f"{params['seed']}-{params['shard']}")
    n = 0
    while n < params["n"]:
        amb = rnd.choice(AMBIENTS)
        shared = dict(args=rnd.choice(ARGSETS))
        tree = rand_tree(rnd, 1, rnd.randint(2, 6), shared)
        mark_reentry(tree, False)
        if any_reentrant(tree):
            # an AssertionError raised by a refused re-entry propagates like any exception; restoration is still judged at every level
            pass
        camb = rnd.choice(AMBIENTS)
        prepare(fpu, probe, tree, camb)
        probe.set(camb)
        shared_cm = fpu.context(**shared["args"])
        probe.set(0x1F80)
        prepare_shared(fpu, probe, tree, shared_cm)
        R.run_history(amb, tree, dict(ambient=hex(amb), created_under=hex(camb), tree=strip(tree)))
        if shared_cm.saved_state is not None and not any_reentrant(tree):
            pass
        # a refused re-entry leaves the shared object "active"; reset it for the next history by building a fresh one (done above)
        if nontrivial(amb, tree):
            rec.cls("random", str(strip(tree))[:300], hex(amb))
        if n < 2:
            rec.sample(dict(kind="random history", ambient=hex(amb), tree=strip(tree)))
        n += 1


TASKS = {"exhaustive": task_exhaustive, "random": task_random}


def plan(tier, seed):
    nsh = 15
    t = [("exhaustive", dict(shard=s, nshards=nsh)) for s in range(nsh)]
    n, k = (1500, 8) if tier == "quick" else (100000, 15)
    t += [("random", dict(seed=seed, shard=s, n=n)) for s in range(k)]
    return t


def replay(site, witness, rec):
    fpu = mods()
    probe = Probe()
    R = Runner(rec, fpu, probe)
    h = witness["history"]
    amb = int(h["ambient"], 16)
    tree = h["tree"]
    camb = int(h.get("created_under", hex(AMBIENTS[(AMBIENTS.index(amb) + 1) % len(AMBIENTS)] if amb in AMBIENTS else 0x1F80)), 16)
    prepare(fpu, probe, tree, camb)
    R.run_history(amb, tree, h)
