/* Independent MXCSR observer (not the repository's generated stubs). */
#include <xmmintrin.h>
unsigned int vf_get_mxcsr(void) { return _mm_getcsr(); }
void vf_set_mxcsr(unsigned int v) { _mm_setcsr(v); }
/* arithmetic probes executed in C so that numpy/python constant folding cannot interfere */
float vf_mul_f32(float a, float b) { volatile float x = a, y = b; volatile float r = x * y; return r; }
float vf_add_f32(float a, float b) { volatile float x = a, y = b; volatile float r = x + y; return r; }
double vf_mul_f64(double a, double b) { volatile double x = a, y = b; volatile double r = x * y; return r; }
double vf_add_f64(double a, double b) { volatile double x = a, y = b; volatile double r = x + y; return r; }
