"""E2: exact arithmetic on the float lattice, independent of functional_algorithms.utils."""
from fractions import Fraction as F
import numpy

INT = {numpy.dtype("float16"): numpy.uint16, numpy.dtype("float32"): numpy.uint32, numpy.dtype("float64"): numpy.uint64}
SINT = {numpy.dtype("float16"): numpy.int16, numpy.dtype("float32"): numpy.int32, numpy.dtype("float64"): numpy.int64}
FLOATS = [numpy.float16, numpy.float32, numpy.float64]


class Fmt:
    def __init__(self, dt):
        self.dt = numpy.dtype(dt)
        self.type = self.dt.type
        self.bits = self.dt.itemsize * 8
        self.p = {16: 11, 32: 24, 64: 53}[self.bits]  # precision incl. hidden bit
        self.ebits = self.bits - self.p
        self.bias = (1 << (self.ebits - 1)) - 1
        self.emax = self.bias  # largest exponent of leading bit
        self.emin = 1 - self.bias  # exponent of smallest normal
        self.uint = INT[self.dt]
        self.sint = SINT[self.dt]
        self.sub = F(2) ** (self.emin - self.p + 1)  # smallest subnormal
        self.min_normal = F(2) ** self.emin
        self.max = (F(2) - F(2) ** (1 - self.p)) * F(2) ** self.emax
        self.overflow_threshold = (F(2) - F(2) ** (-self.p)) * F(2) ** self.emax  # RN(q)=inf iff |q| >= this
        self.inf_bits = ((1 << self.ebits) - 1) << (self.p - 1)
        self.sign_bit = 1 << (self.bits - 1)


_FMT = {}


def fmt(dt):
    dt = numpy.dtype(dt)
    if dt not in _FMT:
        _FMT[dt] = Fmt(dt)
    return _FMT[dt]


def frac(x):
    """exact value of a finite float (python or numpy scalar)"""
    return F(float(x))


def bits_of(x):
    x = numpy.asarray(x)
    return int(x.view(INT[x.dtype]))


def from_bits(dt, b):
    f = fmt(dt)
    return numpy.array([b], dtype=f.uint).view(f.dt)[0]


def floor_log2(a):
    """floor(log2(a)) for Fraction a > 0"""
    e = a.numerator.bit_length() - a.denominator.bit_length()
    if F(2) ** e > a:
        e -= 1
    elif F(2) ** (e + 1) <= a:
        e += 1
    return e


def RN(q, dt):
    """round-to-nearest, ties-to-even, of an exact rational to dtype dt (subnormals, overflow and zero incl.);
    sign of a zero result follows sign of q; q == 0 gives +0."""
    f = fmt(dt)
    q = F(q)
    if q == 0:
        return f.type(0)
    s = -1 if q < 0 else 1
    a = abs(q)
    e = floor_log2(a)
    ee = max(e, f.emin)
    quantum = F(2) ** (ee - f.p + 1)
    n = a / quantum
    fl_ = n.numerator // n.denominator
    rem = n - fl_
    if rem > F(1, 2) or (rem == F(1, 2) and fl_ % 2 == 1):
        fl_ += 1
    val = fl_ * quantum
    if val > f.max:
        return f.type(s) * f.type(numpy.inf)
    # val is exactly representable: build through bits to avoid any double rounding
    if val == 0:
        return f.type(-0.0) if s < 0 else f.type(0.0)
    return from_ordinal(dt, s * ordinal_of_fraction(val, f))


def ordinal_of_fraction(val, f):
    """val > 0 exactly representable in format f -> its lattice index"""
    if val < f.min_normal:
        n = val / f.sub
        assert n.denominator == 1
        return int(n)
    e = floor_log2(val)
    m = val / F(2) ** (e - f.p + 1)  # integer in [2^(p-1), 2^p)
    assert m.denominator == 1, (val, e)
    return ((e - f.emin + 1) << (f.p - 1)) + (int(m) - (1 << (f.p - 1)))


def ordinal(x):
    """monotone bijection float -> int; +-0 -> 0; inf = point after largest; NaN -> None"""
    x = numpy.asarray(x)
    f = fmt(x.dtype)
    b = int(x.view(f.uint))
    mag = b & (f.sign_bit - 1)
    if mag > f.inf_bits:
        return None
    return -mag if b & f.sign_bit else mag


def from_ordinal(dt, n):
    f = fmt(dt)
    n = int(n)
    b = (abs(n)) | (f.sign_bit if n < 0 else 0)
    return numpy.array([b], dtype=f.uint).view(f.dt)[0]


def ordinal_arr(a):
    """vectorised ordinal (int64); NaN entries get a huge sentinel (1<<62)"""
    a = numpy.ascontiguousarray(a)
    f = fmt(a.dtype)
    b = a.view(f.uint).astype(numpy.uint64)
    mag = (b & numpy.uint64(f.sign_bit - 1)).astype(numpy.int64)
    neg = (b & numpy.uint64(f.sign_bit)) != 0
    o = numpy.where(neg, -mag, mag)
    return numpy.where(mag > f.inf_bits, numpy.int64(1) << numpy.int64(62), o)


def from_ordinal_arr(dt, n):
    f = fmt(dt)
    n = numpy.asarray(n, dtype=numpy.int64)
    b = numpy.abs(n).astype(numpy.uint64) | numpy.where(n < 0, numpy.uint64(f.sign_bit), numpy.uint64(0))
    return b.astype(f.uint).view(f.dt)


def ulp_distance(a, b):
    oa, ob = ordinal(a), ordinal(b)
    if oa is None or ob is None:
        return 0 if (oa is None and ob is None) else None
    return abs(oa - ob)


def ulp_distance_arr(a, b):
    """int64 distance; NaN vs NaN -> 0; NaN vs number -> 1<<61"""
    na, nb = numpy.isnan(a), numpy.isnan(b)
    oa, ob = ordinal_arr(a), ordinal_arr(b)
    d = numpy.abs(numpy.where(na | nb, 0, oa) - numpy.where(na | nb, 0, ob))
    return numpy.where(na & nb, 0, numpy.where(na | nb, numpy.int64(1) << numpy.int64(61), d))


def nbits(x):
    """number of significant bits of a finite float (0 for zero)"""
    q = abs(frac(x))
    if q == 0:
        return 0
    n, d = q.numerator, q.denominator
    # q = n/d with d a power of two; strip trailing zeros of n
    n >>= (n & -n).bit_length() - 1
    return n.bit_length()


def ulp_of(x, dt=None):
    """ulp(x) as exact Fraction: spacing of the binade containing |x| (subnormal spacing below min normal)."""
    f = fmt(dt if dt is not None else numpy.asarray(x).dtype)
    q = abs(frac(x))
    if q < f.min_normal:
        return f.sub
    return F(2) ** (floor_log2(q) - f.p + 1)


def is_representable(q, dt):
    f = fmt(dt)
    q = abs(F(q))
    if q == 0:
        return True
    if q > f.max:
        return False
    e = max(floor_log2(q), f.emin)
    return (q / F(2) ** (e - f.p + 1)).denominator == 1


def all_values(dt):
    """every bit pattern of float16 (only sensible for float16)"""
    f = fmt(dt)
    assert f.bits == 16
    return numpy.arange(1 << 16, dtype=numpy.uint16).view(numpy.float16)


def selftest():
    """cross-check E2 against Python's own float/Fraction on all float16 and random float32/64"""
    rng = numpy.random.default_rng(12345)
    a = all_values(numpy.float16)
    fin = a[numpy.isfinite(a)]
    for x in fin[:: 7]:
        assert RN(frac(x), numpy.float16).view(numpy.uint16) == x.view(numpy.uint16) or x == 0, x
        o = ordinal(x)
        assert from_ordinal(numpy.float16, o) == x
    for dt in (numpy.float32, numpy.float64):
        f = fmt(dt)
        b = rng.integers(0, 1 << f.bits, size=2000, dtype=numpy.uint64).astype(f.uint).view(dt)
        b = b[numpy.isfinite(b)]
        for x in b:
            r = RN(frac(x), dt)
            assert r == x, (x, r)
            # midpoint to next: ties to even
            nx = numpy.nextafter(x, dt(numpy.inf))
            if numpy.isfinite(nx):
                mid = (frac(x) + frac(nx)) / 2
                r = RN(mid, dt)
                even = x if (bits_of(x) & 1) == 0 else nx
                assert r == even, (x, nx, r)
                assert ulp_distance(x, nx) == 1
        # numpy conversion from float64 is correctly rounded: use it as a cross check for float32
        if dt == numpy.float32:
            d = rng.standard_normal(2000) * 10.0 ** rng.integers(-44, 38, size=2000)
            for v in d:
                assert bits_of(RN(F(float(v)), dt)) == bits_of(numpy.float32(v)), v
    return True


if __name__ == "__main__":
    print(selftest())


# ---------------------------------------------------------------------------------------------
# integer ("units of the smallest subnormal") arithmetic, usable on object arrays of Python ints
def units_exp(dt):
    """exponent k such that every finite float of dt is an integer multiple of 2**k"""
    f = fmt(dt)
    return f.emin - f.p + 1


def to_units(a):
    """finite float array -> object array of Python ints n with value == n * 2**units_exp(dtype)"""
    a = numpy.ascontiguousarray(a)
    f = fmt(a.dtype)
    b = a.view(f.uint).astype(numpy.uint64)
    neg = (b & numpy.uint64(f.sign_bit)) != 0
    mag = b & numpy.uint64(f.sign_bit - 1)
    e = (mag >> numpy.uint64(f.p - 1)).astype(numpy.int64)
    frac_ = (mag & numpy.uint64((1 << (f.p - 1)) - 1)).astype(numpy.int64)
    m = numpy.where(e == 0, frac_, frac_ | (numpy.int64(1) << numpy.int64(f.p - 1)))
    sh = numpy.where(e == 0, 0, e - 1)
    m = numpy.where(neg, -m, m)
    mo = m.astype(object)
    if f.bits == 16:
        return mo * (2 ** sh.astype(object))
    return numpy.frompyfunc(lambda mm, ss: int(mm) << int(ss), 2, 1)(mo, sh.astype(object))


def rn_int_ordinal(n, k, f):
    """ordinal of RN(n * 2**k) in format f (ties to even; |ordinal| == f.inf_bits means overflow to inf)"""
    n = int(n)
    if n == 0:
        return 0
    a = -n if n < 0 else n
    e = a.bit_length() - 1 + k
    if e < f.emin - f.p - 1:
        return 0  # below half the smallest subnormal
    if e > f.emax:
        return -f.inf_bits if n < 0 else f.inf_bits
    ee = e if e > f.emin else f.emin
    shift = ee - f.p + 1 - k
    if shift <= 0:
        m = a << (-shift)
    else:
        m = a >> shift
        rem = a & ((1 << shift) - 1)
        half = 1 << (shift - 1)
        if rem > half or (rem == half and (m & 1)):
            m += 1
    o = ((ee - f.emin) << (f.p - 1)) + m
    if o >= f.inf_bits:
        o = f.inf_bits
    return -o if n < 0 else o


def rn_units(n_obj, k, dt):
    """vector RN: object array of ints n (value n*2**k) -> float array of dtype dt"""
    f = fmt(dt)
    o = numpy.frompyfunc(lambda n: rn_int_ordinal(n, k, f), 1, 1)(n_obj).astype(numpy.int64)
    return from_ordinal_arr(dt, o)


def representable_units(n_obj, k, dt):
    """is n*2**k exactly representable (finite) in dt"""
    f = fmt(dt)

    def rep(n):
        n = abs(int(n))
        if n == 0:
            return True
        e = n.bit_length() - 1 + k
        if e > f.emax:
            return False
        ee = max(e, f.emin)
        shift = ee - f.p + 1 - k
        return shift <= 0 or (n & ((1 << shift) - 1)) == 0

    return numpy.frompyfunc(rep, 1, 1)(n_obj).astype(bool)


def nbits_units(n_obj):
    def nb(n):
        n = abs(int(n))
        if n == 0:
            return 0
        return (n >> ((n & -n).bit_length() - 1)).bit_length()

    return numpy.frompyfunc(nb, 1, 1)(n_obj).astype(numpy.int64)


def selftest_units():
    rng = numpy.random.default_rng(7)
    for dt in FLOATS:
        f = fmt(dt)
        b = rng.integers(0, 1 << f.bits, size=3000, dtype=numpy.uint64).astype(f.uint).view(dt)
        b = b[numpy.isfinite(b)]
        u = to_units(b)
        k = units_exp(dt)
        for x, n in zip(b[:400], u[:400]):
            assert F(int(n)) * F(2) ** k == frac(x), (x, n)
        r = rn_units(u, k, dt)
        assert (r.view(f.uint) == b.view(f.uint)).all() or ((r == b) | ((r == 0) & (b == 0))).all()
        # products / sums vs Fraction RN
        x, y = b[:300], b[300:600]
        n = min(len(x), len(y))
        x, y = x[:n], y[:n]
        pu = to_units(x) * to_units(y)
        rp = rn_units(pu, 2 * k, dt)
        su = to_units(x) + to_units(y)
        rs = rn_units(su, k, dt)
        for i in range(n):
            assert bits_of(RN(frac(x[i]) * frac(y[i]), dt)) == bits_of(rp[i]) or (rp[i] == 0), (x[i], y[i])
            e = RN(frac(x[i]) + frac(y[i]), dt)
            assert e == rs[i] or (numpy.isinf(e) and numpy.isinf(rs[i])), (x[i], y[i], e, rs[i])
    return True
