"""C17 — argument reduction reconstructs its input.

The real argument_reduction_exponent / argument_reduction_trigonometric run through NumpyContext; oracle = mpmath at
4*(p + exponent span) bits: integrality of k, bound on the remainder, reconstruction of x (exp) / of the remainder modulo 2*pi (trig).
"""
import math

import mpmath
import numpy

from .. import exact, gen
from ..core import unfl

LEVEL = "exploration"
RULE = ("float16: every finite value of the stated domains; float32/float64: random bit patterns restricted to the domain, neighbours (+-8 ulps) of k*ln2, (k+1/2)*ln2 "
        "and k*pi/2 for k across the whole reachable range, continued-fraction worst cases (floats d*2^e closest to multiples of ln2 resp. pi/2 in every binade), the "
        "|x| < pi/4 transition, the largest admissible |x|, subnormals and both signs. distinct_nontrivial = distinct (reduction, dtype, k, binade of x, generator class) tuples")
ASSUME = ["mpmath's pi and ln2 at the working precision; exact float -> mpf conversion", "trigonometric domain |x| <= largest / 2^j with j = 2 (float16), 5 (float32), 18 (float64) as in the repository's own test"]
REQUIRE = ["evaluations", "judged:exp", "judged:trig", "hard:cf-cases", "hard:neighbours", "hard:tie-band"]

TRIG_J = {16: 2, 32: 5, 64: 18}
TRIG_ULP = {16: 10, 32: 1, 64: 1}


def EXHAUSTIVE(tier):
    return "float16: every finite value with |x| < log(largest) (exponential) and |x| <= largest/4 (trigonometric)"


def mp_of(ctx, x):
    q = exact.frac(x)
    return ctx.mpf(q.numerator) / ctx.mpf(q.denominator)


def rn(ctx_value, f):
    sign, man, exp, bc = ctx_value._mpf_
    return exact.rn_int_ordinal(-int(man) if sign else int(man), int(exp), f)


def judge_exp(rec, dt, x, k, r, c, mp, cls):
    f = exact.fmt(dt)
    w = dict(dtype=numpy.dtype(dt).name, x=x, k=k, r=r, c=c)
    rec.count("evaluations")
    rec.count("judged:exp")
    if not (numpy.isfinite(k) and float(k) == math.floor(float(k))):
        rec.violation("exp:k-not-integral", w)
        return
    if not (numpy.isfinite(r) and numpy.isfinite(c)):
        rec.violation("exp:remainder-not-finite", w)
        return
    rc = mp_of(mp, r) + mp_of(mp, c)
    if abs(rc) > mp.mpf("0.55") * mp.ln2:
        rec.violation("exp:remainder-bound", dict(w, remainder_over_ln2=float(abs(rc) / mp.ln2)))
    recon = mp.mpf(int(k)) * mp.ln2 + rc
    # "equal to x to within 1 ULP of x": the real-valued error against the spacing of x (comparing *rounded* values by lattice steps would
    # accept up to 1.5 ULP - a seeded float16 ln2 constant error of 1.23 ULP hid there)
    xm = mp_of(mp, x)
    ax = abs(xm)
    ex = max(int(mp.floor(mp.log(ax, 2))), f.emin) if ax != 0 else f.emin
    ulp_x = mp.ldexp(mp.mpf(1), ex - f.p + 1)
    err = abs(recon - xm) / ulp_x
    if err > 1:
        rec.violation("exp:reconstruction", dict(w, error_in_ulps_of_x=float(err)))
    rec.cls("exp", numpy.dtype(dt).name, int(k), cls)


def judge_trig(rec, dt, x, k, r, t, mp, cls):
    f = exact.fmt(dt)
    w = dict(dtype=numpy.dtype(dt).name, x=x, k=k, r=r, t=t)
    rec.count("evaluations")
    rec.count("judged:trig")
    if not (numpy.isfinite(k) and float(k) in (0.0, 1.0, 2.0, 3.0)):
        rec.violation("trig:k-range", w)
        return
    if not (numpy.isfinite(r) and numpy.isfinite(t)):
        rec.violation("trig:remainder-not-finite", w)
        return
    if abs(float(r)) > 1.1 * math.pi / 4:
        rec.violation("trig:remainder-bound", w)
    pi2 = mp.pi / 2
    xm = mp_of(mp, x)
    rt = mp_of(mp, r) + mp_of(mp, t)
    q = (xm - int(k) * pi2 - rt) / (4 * pi2)
    n = mp.nint(q)
    true_rem = xm - (4 * n + int(k)) * pi2  # the exact remainder for this k (nearest multiple of 2*pi removed)
    d = abs(rn(true_rem, f) - rn(rt, f))
    atr = abs(true_rem)
    etr = max(int(mp.floor(mp.log(atr, 2))), f.emin) if atr != 0 else f.emin
    err_ulps = abs(rt - true_rem) / mp.ldexp(mp.mpf(1), etr - f.p + 1)  # real-valued error in ULPs of the remainder (see judge_exp)
    if err_ulps > TRIG_ULP[f.bits]:
        # absolute error relative to |x| * (smallest subnormal): the accuracy the dtype's own 2/pi multiword (words down to the smallest subnormal) can give
        ratio = float(abs(rt - true_rem) / (abs(xm) * mp.ldexp(mp.mpf(1), f.emin - f.p + 1)))
        ae = abs(rt - true_rem)
        rec.violation("trig:reconstruction", dict(w, ulps=int(d), error_in_ulps_of_remainder=float(err_ulps), true_remainder=float(true_rem), abs_error_over_x_times_smallest_subnormal=ratio,
                                                  log2_abs_error=float(mp.log(ae, 2)) if ae != 0 else -1e9, log2_abs_true_remainder=float(mp.log(abs(true_rem), 2)) if true_rem != 0 else -1e9))
    with numpy.errstate(all="ignore"):
        e = int(numpy.frexp(numpy.float64(x))[1])
    rec.cls("trig", numpy.dtype(dt).name, int(k), e // 4, cls)


def cf_hard_cases(mp, dt, const, emin, emax, step):
    """floats d * 2^e (d < 2^p) closest to integer multiples of `const`, one set per binade exponent e (continued fraction of 2^e / const)"""
    f = exact.fmt(dt)
    out = []
    for e in range(emin, emax + 1, step):
        alpha = mp.ldexp(mp.mpf(1), e) / const
        # convergents n_i / d_i of alpha
        a = alpha
        n0, n1, d0, d1 = 0, 1, 1, 0
        for it in range(200):
            ai = int(mp.floor(a))
            n0, n1 = n1, ai * n1 + n0
            d0, d1 = d1, ai * d1 + d0
            if d1 >= (1 << f.p):
                break
            if d1 >= (1 << (f.p // 2)):
                out.append((d1, e))
            frac_ = a - ai
            if frac_ == 0:
                break
            a = 1 / frac_
    vals = []
    for d, e in out:
        with numpy.errstate(all="ignore"):
            v = numpy.ldexp(numpy.float64(d), e) if f.bits == 64 else numpy.float64(d) * 2.0**e
        vals.append(v)
    return numpy.array(vals, dtype=numpy.float64).astype(dt)


def domains(dt):
    fi = numpy.finfo(dt)
    f = exact.fmt(dt)
    return float(numpy.log(dt(fi.max))), float(fi.max) / 2.0 ** TRIG_J[f.bits]


def run(rec, dt, xs, cls, which=("exp", "trig")):
    from functional_algorithms import floating_point_algorithms as fpa, utils

    f = exact.fmt(dt)
    ctx = utils.NumpyContext(dt)
    mp = mpmath.mp.clone()
    mp.prec = 4 * (f.p + (f.emax - f.emin + f.p)) if f.bits > 16 else 400
    lim_exp, lim_trig = domains(dt)
    for x in xs:
        x = dt(x)
        if not numpy.isfinite(x):
            continue
        with numpy.errstate(all="ignore"):
            if "exp" in which and abs(float(x)) < lim_exp:
                try:
                    k, r, c = fpa.argument_reduction_exponent(ctx, x)
                    judge_exp(rec, dt, x, k, r, c, mp, cls)
                except Exception as e:
                    rec.violation("exp:exception", dict(dtype=numpy.dtype(dt).name, x=x, exc=f"{type(e).__name__}: {e}"[:200]))
            if "trig" in which and abs(float(x)) <= lim_trig:
                try:
                    k, r, t = fpa.argument_reduction_trigonometric(ctx, x)
                    judge_trig(rec, dt, x, k, r, t, mp, cls)
                except Exception as e:
                    rec.violation("trig:exception", dict(dtype=numpy.dtype(dt).name, x=x, exc=f"{type(e).__name__}: {e}"[:200]))


def task_f16(params, rec):
    dt = numpy.float16
    a = exact.all_values(dt)
    a = a[numpy.isfinite(a)][params["shard"]:: params["nshards"]]
    run(rec, dt, a, "all")
    rec.sample(dict(kind="float16 exhaustive shard", count=int(a.size), first=a[0]))


def task_hard(params, rec):
    dt = getattr(numpy, params["dtype"])
    f = exact.fmt(dt)
    rng = gen.rng_for(params["seed"], 17, params["shard"], f.bits)
    mp = mpmath.mp.clone()
    mp.prec = 4 * (f.p + (f.emax - f.emin + f.p))
    lim_exp, lim_trig = domains(dt)
    n = params["n"]
    # neighbours of k*ln2 and (k+1/2)*ln2
    kmax = int(lim_exp / math.log(2))
    ks = rng.integers(-kmax, kmax + 1, size=n)
    base = [(mp.mpf(int(k)) + (mp.mpf(1) / 2 if rng.random() < 0.5 else 0)) * mp.ln2 for k in ks]
    x0 = exact.from_ordinal_arr(dt, numpy.array([rn(b, f) for b in base]))
    xs = exact.from_ordinal_arr(dt, exact.ordinal_arr(x0) + rng.integers(-8, 9, size=n))
    rec.count("hard:neighbours", n)
    run(rec, dt, xs, "ln2-neighbour", which=("exp",))
    # neighbours of k*pi/2 over the whole trig domain (k log-uniform)
    emax_k = math.log2(lim_trig)
    kq = [int(2.0 ** rng.uniform(-1, emax_k - 1)) + int(rng.integers(0, 4)) for _ in range(n)]
    base = [mp.mpf(k) * mp.pi / 2 * (1 if rng.random() < 0.5 else -1) for k in kq]
    x0 = exact.from_ordinal_arr(dt, numpy.array([rn(b, f) for b in base]))
    xs = exact.from_ordinal_arr(dt, exact.ordinal_arr(x0) + rng.integers(-8, 9, size=n))
    rec.count("hard:neighbours", n)
    run(rec, dt, xs, "pi/2-neighbour", which=("trig",))
    # a band around the rounding ties of x/ln2 and x/(pi/2): the statement leaves 10 % slack above the half-way remainder (0.55 ln2, 1.1 pi/4), so a
    # quotient estimate that is slightly off only shows when x/c is several hundredths away from the tie - far outside +-8 ulps, rare for random bits
    nb = n
    ks = rng.integers(-kmax, kmax + 1, size=nb)
    # |k| large matters most (an error proportional to k): half of the band samples take k from the top quarter of the domain
    top = rng.random(nb) < 0.5
    ks = numpy.where(top, numpy.sign(ks + 0.5) * rng.integers(int(0.7 * kmax), kmax + 1, size=nb), ks).astype(int)
    dl = numpy.where(rng.random(nb) < 0.5, rng.uniform(0, 0.12, size=nb), 2.0 ** rng.uniform(-40, -3, size=nb)) * numpy.where(rng.random(nb) < 0.5, 1, -1)
    base = [(mp.mpf(int(k)) + mp.mpf(1) / 2 + mp.mpf(float(d))) * mp.ln2 for k, d in zip(ks, dl)]
    xs = exact.from_ordinal_arr(dt, numpy.array([rn(b, f) for b in base]))
    rec.count("hard:tie-band", nb)
    run(rec, dt, xs, "ln2-tie-band", which=("exp",))
    kq = [int(2.0 ** rng.uniform(-1, emax_k - 1)) + int(rng.integers(0, 4)) for _ in range(nb)]
    base = [(mp.mpf(k) + mp.mpf(1) / 2 + mp.mpf(float(d))) * mp.pi / 2 * (1 if rng.random() < 0.5 else -1) for k, d in zip(kq, dl)]
    xs = exact.from_ordinal_arr(dt, numpy.array([rn(b, f) for b in base]))
    rec.count("hard:tie-band", nb)
    run(rec, dt, xs, "pi/2-tie-band", which=("trig",))
    # pi/4 transition, domain edges, tiny/subnormal
    fi = numpy.finfo(dt)
    edges = gen.neighbours(numpy.array([math.pi / 4, math.pi / 2, lim_trig, lim_exp, float(fi.smallest_normal), float(fi.smallest_subnormal), 0.0, math.log(2) / 2, math.log(2)], dtype=dt), dt, k=8)
    edges = numpy.concatenate([edges, -edges])
    run(rec, dt, edges, "edge")
    # random bit patterns in the domains
    xs = gen.random_bits(rng, dt, n, inf=False)
    run(rec, dt, xs, "random")
    rec.sample(dict(kind="hard cases", dtype=params["dtype"], n=n, first=[xs[0], x0[0]]))


def task_cf(params, rec):
    dt = getattr(numpy, params["dtype"])
    f = exact.fmt(dt)
    mp = mpmath.mp.clone()
    mp.prec = 4 * (f.p + (f.emax - f.emin + f.p))
    lim_exp, lim_trig = domains(dt)
    emax_t = int(math.log2(lim_trig)) - f.p
    xs = cf_hard_cases(mp, dt, mp.pi / 2, -f.p - 4, emax_t, params["step"])
    xs = xs[numpy.isfinite(xs) & (numpy.abs(xs.astype(numpy.float64)) <= lim_trig)]
    xs = numpy.concatenate([xs, -xs])[params["shard"]:: params["nshards"]]
    rec.count("hard:cf-cases", int(xs.size))
    run(rec, dt, xs, "cf-pi/2", which=("trig",))
    xe = cf_hard_cases(mp, dt, mp.ln2, -f.p - 4, int(math.log2(lim_exp)) - f.p // 2, 1)
    xe = xe[numpy.isfinite(xe) & (numpy.abs(xe.astype(numpy.float64)) < lim_exp)]
    xe = numpy.concatenate([xe, -xe])[params["shard"]:: params["nshards"]]
    rec.count("hard:cf-cases", int(xe.size))
    run(rec, dt, xe, "cf-ln2", which=("exp",))
    rec.sample(dict(kind="continued-fraction hard cases", dtype=params["dtype"], pi_cases=int(xs.size), ln2_cases=int(xe.size), first=xs[0] if xs.size else None))


TASKS = {"f16": task_f16, "hard": task_hard, "cf": task_cf}
SHARD_TIMEOUT = {"quick": 1500, "thorough": 9000}


def plan(tier, seed):
    t = [("f16", dict(shard=s, nshards=6)) for s in range(6)]
    n, nsh = (700, 4) if tier == "quick" else (25000, 6)
    for dtn in ("float32", "float64"):
        for s in range(nsh):
            t.append(("hard", dict(dtype=dtn, seed=seed, shard=s, n=n)))
        ncf = 2 if tier == "quick" else 4
        for s in range(ncf):
            t.append(("cf", dict(dtype=dtn, shard=s, nshards=ncf, step=(7 if dtn == "float64" else 2) if tier == "quick" else 1)))
    return t


def replay(site, witness, rec):
    dt = getattr(numpy, witness["dtype"])
    run(rec, dt, [unfl(witness["x"], dt)], "replay")
