"""E3: hostile value generators.  All randomness derives from numpy SeedSequence(seed, shard)."""
import numpy
from .exact import fmt, from_ordinal_arr, ordinal_arr


def rng_for(seed, *path):
    return numpy.random.default_rng(numpy.random.SeedSequence([int(seed) & 0xFFFFFFFF, *[int(p) & 0xFFFFFFFF for p in path]]))


def random_bits(rng, dt, n, nan=False, inf=True):
    """uniform over bit patterns (ULP-uniform = 'log-uniform'); NaNs (and optionally infs) redrawn"""
    f = fmt(dt)
    out = numpy.empty(0, dtype=f.dt)
    while out.size < n:
        b = rng.integers(0, 1 << f.bits, size=int((n - out.size) * 1.1) + 16, dtype=numpy.uint64).astype(f.uint).view(f.dt)
        if not nan:
            b = b[~numpy.isnan(b)]
        if not inf:
            b = b[~numpy.isinf(b)]
        out = numpy.concatenate([out, b])
    return out[:n]


def all_exponents_structured(rng, dt, per_exp_random=3):
    """every biased exponent (all subnormal binades incl.) x {min, max, one-low-bit, one-high-bit, random} significands, both signs"""
    f = fmt(dt)
    pm1 = f.p - 1
    out = []
    for e in range(0, (1 << f.ebits) - 1):
        sigs = {0, (1 << pm1) - 1, 1, 1 << (pm1 - 1), (1 << pm1) - 2}
        for _ in range(per_exp_random):
            sigs.add(int(rng.integers(0, 1 << pm1)))
        for s in sigs:
            out.append((e << pm1) | s)
    # all subnormal binades: leading bit at every position, with min/max/random tails
    for k in range(pm1):
        lead = 1 << k
        tails = {0, lead - 1} | {int(rng.integers(0, lead)) for _ in range(2) if lead > 1}
        for t in tails:
            out.append(lead | t)
    b = numpy.array(sorted(set(out)), dtype=numpy.uint64)
    b = numpy.concatenate([b, b | numpy.uint64(f.sign_bit)])
    return b.astype(f.uint).view(f.dt)


def specials(dt, nan=False):
    f = fmt(dt)
    fi = numpy.finfo(dt)
    t = f.type
    base = [0.0, fi.smallest_subnormal, fi.smallest_normal, fi.eps, fi.epsneg, 0.5, 1.0, 1.5, 2.0, 3.0, fi.max, float(fi.max) / 2,
            numpy.sqrt(t(fi.max)), numpy.sqrt(t(fi.smallest_normal)), numpy.inf, t(fi.smallest_normal) - t(fi.smallest_subnormal)]
    v = []
    for x in base:
        v += [t(x), -t(x)]
    if nan:
        v.append(t(numpy.nan))
    return numpy.array(v, dtype=f.dt)


def neighbours(vals, dt, k=3, finite_only=False):
    """each value with its +-1..k ulp neighbours, both signs kept as given"""
    f = fmt(dt)
    vals = numpy.asarray(vals, dtype=f.dt)
    vals = vals[~numpy.isnan(vals)]
    o = ordinal_arr(vals)
    maxo = f.inf_bits
    outs = []
    for d in range(-k, k + 1):
        oo = numpy.clip(o + d, -maxo, maxo)
        outs.append(oo)
    oo = numpy.unique(numpy.concatenate(outs))
    r = from_ordinal_arr(dt, oo)
    # both zeros
    r = numpy.concatenate([r, numpy.array([-0.0], dtype=f.dt)])
    if finite_only:
        r = r[numpy.isfinite(r)]
    return r


def powers_of_two(dt, k=3):
    f = fmt(dt)
    es = numpy.arange(f.emin - f.p + 1, f.emax + 1)
    v = numpy.ldexp(numpy.float64(1), es).astype(f.dt) if f.bits < 64 else numpy.ldexp(numpy.float64(1), es)
    v = numpy.concatenate([v, -v])
    return neighbours(v, dt, k=k)


def hostile_values(rng, dt, n, finite_only=True):
    """mixture: specials+neighbours, powers of two neighbours, random bits, mid-range"""
    f = fmt(dt)
    sp = neighbours(specials(dt), dt, k=3, finite_only=finite_only)
    p2 = powers_of_two(dt, k=2)
    if finite_only:
        p2 = p2[numpy.isfinite(p2)]
    c = rng.integers(0, 4, size=n)
    a = sp[rng.integers(0, sp.size, size=n)]
    b = p2[rng.integers(0, p2.size, size=n)]
    r = random_bits(rng, dt, n, inf=not finite_only)
    m = (rng.choice([-1.0, 1.0], size=n) * 2.0 ** rng.uniform(-12, 12, size=n)).astype(f.dt)
    return numpy.select([c == 0, c == 1, c == 2], [a, b, r], m).astype(f.dt)
