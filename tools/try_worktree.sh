#!/bin/bash
# tools/try_worktree.sh <Cxx> <tier> <reverse-or-forward patch> [-R]
# Runs a check against a scratch worktree of /repo's HEAD with a patch applied (or reverted with -R), without touching /repo:
# for experiments while /repo is in use by long runs. Never writes evidence. Not used by any registered command.
set -u
P="$1"; TIER="$2"; PATCH="$3"; REV="${4:-}"
WT=/var/tmp/exp-wt-$$
git -C /repo worktree add --detach "$WT" HEAD >/dev/null 2>&1 || exit 3
trap 'git -C /repo worktree remove --force "$WT" >/dev/null 2>&1; rm -rf "$WT"' EXIT
( cd "$WT" && git apply $REV "$PATCH" ) || { echo "REFUSED: patch does not apply"; exit 3; }
cd /verif
bash vf/bootstrap.sh >/dev/null 2>&1
VF_EXPERIMENT_PKG_ROOT="$WT" VERIF_EVIDENCE_SKIP=1 PYTHONHASHSEED=0 FA_VERIF=1 PATH=/venv/bin:$PATH PYTHONPATH="$WT:/verif:/verif/.deps" \
  OMP_NUM_THREADS=1 OPENBLAS_NUM_THREADS=1 MKL_NUM_THREADS=1 /venv/bin/python -m vf.cli "$P" --tier "$TIER" 2>&1 | grep -v "^KNOWN" | cut -c1-400 | tail -5
echo "exit=${PIPESTATUS[0]}"
