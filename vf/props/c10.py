"""C10 — error-free transformations are exact.

Recording contracts on the real EFT functions (fpa.add_2sum, split_veltkamp, mul_dekker, apmath.two_sum/two_prod,
utils.add_2sum/add_fast2sum/split_veltkamp/multiply_dekker/square_dekker/double_2sum and the inlined copies of
algorithms.py) with exact integer oracles (vf.exact units arithmetic).  float16 exhaustive over all finite pairs.
"""
import numpy

from .. import exact, gen, contracts
from ..core import unfl

LEVEL = "exploration"
RULE = ("float16: all finite pairs (thorough; 512 x values against all y in quick) for add_2sum (2Sum/Fast2Sum, fix_overflow), mul_dekker "
        "(scale, fix_overflow) and all finite values for the splitter; float32/float64: relation-generated pairs (ties, exponent gaps "
        "p-1..p+2, near cancellation, short mantissas, subnormal/overflow edges) through fpa, apmath, utils and algorithms.py copies. "
        "distinct_nontrivial = distinct (function, options, dtype, generator class, inexact?, exponent-gap bucket, subnormal?) tuples among in-domain pairs whose sum/product is inexact")
ASSUME = ["numpy float arithmetic is IEEE round-to-nearest-even (x86-64 SSE)", "vf.exact units arithmetic (self-tested against Fraction at start-up)"]
REQUIRE = ["evaluations", "contract:fpa.add_2sum:evaluated", "contract:fpa.split_veltkamp:evaluated", "contract:fpa.mul_dekker:evaluated",
           "judged:2sum", "judged:fast2sum", "judged:split", "judged:dekker", "judged:alg.add_2sum", "judged:alg.split_veltkamp", "judged:alg.square_dekker",
           "judged:utils.add_2sum", "judged:utils.multiply_dekker", "judged:utils.square_dekker", "judged:utils.split_veltkamp", "judged:apmath.two_sum", "judged:apmath.two_prod"]


def EXHAUSTIVE(tier):
    if tier == "thorough":
        return "float16: all finite pairs for add_2sum (2Sum and Fast2Sum) and mul_dekker(scale=True); all finite float16 for split_veltkamp; other option sets on a quarter of the x blocks"
    return "float16: all finite values for split_veltkamp (scale on/off)"


DOC_NOSCALE_LIMIT = {16: 986.0, 32: 7.5e33, 64: 4.3e299}


def fin(*arrs):
    m = numpy.isfinite(arrs[0])
    for a in arrs[1:]:
        m = m & numpy.isfinite(a)
    return m


def first_bad(mask, *arrs):
    i = int(numpy.flatnonzero(mask)[0])
    return [a.reshape(-1)[i] if isinstance(a, numpy.ndarray) and a.size > 1 else (a.reshape(-1)[0] if isinstance(a, numpy.ndarray) else a) for a in arrs]


def bcast(*arrs):
    arrs = [numpy.asarray(a) for a in arrs]
    out = numpy.broadcast_arrays(*arrs)
    return [numpy.ascontiguousarray(o).reshape(-1) for o in out]


def judge_sum(rec, site, x, y, s, t, fast=False, fix_overflow=False, cls=None):
    """2Sum / Fast2Sum oracle on arrays: s == RN(x+y), s+t == x+y on the documented domain"""
    x, y, s, t = bcast(x, y, s, t)
    dt = x.dtype.type
    with numpy.errstate(all="ignore"):
        s0 = x + y
        z = s0 - x
        dom = fin(x, y, s0, z)
        if fast:
            dom &= (numpy.abs(x) >= numpy.abs(y))
            dom &= fin(y - z)
        else:
            dom &= fin(s0 - z, x - (s0 - z), y - z)
    n = int(dom.sum())
    rec.count("evaluations", x.size)
    rec.count(("judged:fast2sum" if fast else "judged:2sum") if site.startswith("fpa") else "judged:" + site.split(":")[0], n)
    rec.count("out_of_domain:" + site, x.size - n)
    if n == 0:
        return
    xs, ys, ss, ts = x[dom], y[dom], s[dom], t[dom]
    okfin = fin(ss, ts)
    ssf = numpy.where(okfin, ss, dt(0))
    tsf = numpy.where(okfin, ts, dt(0))
    if exact.fmt(dt).bits == 16:
        # every float16 sum of two terms is exact in float64, and float64 -> float16 conversion rounds once (RN-even)
        ex = xs.astype(numpy.float64) + ys.astype(numpy.float64)
        with numpy.errstate(all="ignore"):
            rn = ex.astype(dt)
        bad_exact = ~okfin | (ssf.astype(numpy.float64) + tsf.astype(numpy.float64) != ex)
    else:
        k = exact.units_exp(dt)
        ex = exact.to_units(xs) + exact.to_units(ys)
        sumst = exact.to_units(ssf) + exact.to_units(tsf)
        rn = exact.rn_units(ex, k, dt)
        bad_exact = ~okfin | (sumst != ex).astype(bool)
    bad_rn = okfin & ~((ss == rn) | ((ss == 0) & (rn == 0)))
    bad = bad_exact | bad_rn
    if bad.any():
        xb, yb, sb, tb, rb = first_bad(bad, xs, ys, ss, ts, rn)
        rec.violation(site + ("-exact" if bad_exact.any() else "-rn"), dict(dtype=numpy.dtype(dt).name, x=xb, y=yb, s=sb, t=tb, rn=rb, fast=fast, fix_overflow=fix_overflow, count=int(bad.sum())), n=int(bad.sum()))
    inexact = tsf != 0
    if cls is not None and inexact.any():
        with numpy.errstate(all="ignore"):
            _, e1 = numpy.frexp(xs.astype(numpy.float64))
            _, e2 = numpy.frexp(ys.astype(numpy.float64))
        gap = numpy.clip(numpy.abs(e1 - e2), 0, 3 * exact.fmt(dt).p) // 4
        subn = (numpy.abs(ss) < numpy.finfo(dt).smallest_normal)
        for g, sb_ in set(zip(gap[inexact][:5000].tolist(), subn[inexact][:5000].tolist())):
            rec.cls(site, numpy.dtype(dt).name, cls, fast, fix_overflow, int(g), bool(sb_))


def judge_split(rec, site, x, xh, xl, scale, C_default=True, s_bits=None):
    x, xh, xl = bcast(x, xh, xl)
    dt = x.dtype.type
    f = exact.fmt(dt)
    p = f.p
    s = (p + 1) // 2 if s_bits is None else s_bits
    if scale:
        dom = fin(x)
    else:
        with numpy.errstate(all="ignore"):
            dom = fin(x) & (numpy.abs(x.astype(numpy.float64)) <= float(numpy.finfo(dt).max) / (2.0**s + 1))
    n = int(dom.sum())
    rec.count("evaluations", x.size)
    rec.count("judged:split" if site.startswith("fpa") else "judged:" + site.split(":")[0], n)
    if n == 0:
        return
    xs, hs, ls = x[dom], xh[dom], xl[dom]
    okfin = fin(hs, ls)
    hz = numpy.where(okfin, hs, dt(0))
    lz = numpy.where(okfin, ls, dt(0))
    if f.bits == 16:
        bad_sum = ~okfin | (hz.astype(numpy.float64) + lz.astype(numpy.float64) != xs.astype(numpy.float64))
        nbh, nbl = nbits16(hz), nbits16(lz)
    else:
        ux, uh, ul = exact.to_units(xs), exact.to_units(hz), exact.to_units(lz)
        bad_sum = ~okfin | (uh + ul != ux).astype(bool)
        nbh, nbl = exact.nbits_units(uh), exact.nbits_units(ul)
    half = (p + 1) // 2  # ceil(p/2): "both halves fit in half the significand"
    if s_bits is None:
        bad_bits = okfin & ((nbh > half) | (nbl > half))
    else:
        bad_bits = okfin & ((nbh > p - s) | (nbl > s))
    bad = bad_sum | bad_bits
    if bad.any():
        xb, hb, lb = first_bad(bad, xs, hs, ls)
        rec.violation(site + ("-sum" if bad_sum.any() else "-width"), dict(dtype=numpy.dtype(dt).name, x=xb, xh=hb, xl=lb, scale=scale, bits_hi=int(nbh[bad][0]), bits_lo=int(nbl[bad][0]), count=int(bad.sum())), n=int(bad.sum()))
    rec.note("max_bits:" + site + ":" + numpy.dtype(dt).name, dict(hi=int(nbh.max()), lo=int(nbl.max())))
    big = numpy.abs(xs.astype(numpy.float64)) > float(numpy.finfo(dt).max) / 2.0**s
    subn = (numpy.abs(xs) < numpy.finfo(dt).smallest_normal) & (xs != 0)
    for b_, s_ in set(zip(big.tolist()[:5000], subn.tolist()[:5000])):
        rec.cls(site, numpy.dtype(dt).name, scale, "big" if b_ else "sub" if s_ else "mid")


def judge_prod(rec, site, x, y, h, l, scale=True, fix_overflow=False, cls=None, square=False):
    x, y, h, l = bcast(x, y, h, l)
    dt = x.dtype.type
    f = exact.fmt(dt)
    p = f.p
    s = (p + 1) // 2
    k = exact.units_exp(dt)
    with numpy.errstate(all="ignore"):
        ax, ay = numpy.abs(x.astype(numpy.float64)), numpy.abs(y.astype(numpy.float64))
        big = float(numpy.finfo(dt).max)
        # no overflow in intermediates: |xh*yh| <= |xy| (1 + 2^-(p-s))^2
        infl = (1 + 2.0 ** -(p - s)) ** 2
        logmag = numpy.log2(numpy.maximum(ax, 1e-300)) + numpy.log2(numpy.maximum(ay, 1e-300))
        dom = fin(x, y) & (logmag + numpy.log2(infl) < numpy.log2(big) - 1e-9)
        if not scale:
            lim = DOC_NOSCALE_LIMIT[f.bits]
            dom &= (ax <= lim) & (ay <= lim)
    rec.count("evaluations", x.size)
    if fix_overflow:
        # the region the overflow guard exists for: x*y finite, the Dekker product may overflow internally.  Documented: "fallback to xyh = x * y and
        # xyl = 0".  Whether or not the guard fires for a given pair, the result must be the exact pair or that fallback - never an infinity or NaN.
        with numpy.errstate(all="ignore"):
            prod = (x * y).astype(dt)
            reg = fin(x, y) & ~dom & numpy.isfinite(prod) & (logmag + numpy.log2(infl) >= numpy.log2(big) - 1e-9)
            if not scale:
                reg &= (ax <= DOC_NOSCALE_LIMIT[f.bits]) & (ay <= DOC_NOSCALE_LIMIT[f.bits])
        if reg.any():
            xr, yr, hr, lr, pr = x[reg], y[reg], h[reg], l[reg], prod[reg]
            okf = fin(hr, lr)
            fallback = okf & (hr == pr) & (lr == 0)
            hz_, lz_ = numpy.where(okf, hr, dt(0)), numpy.where(okf, lr, dt(0))
            if f.bits == 16:
                exact_pair = okf & (hz_.astype(numpy.float64) + lz_.astype(numpy.float64) == xr.astype(numpy.float64) * yr.astype(numpy.float64)) & (hr == pr)
            else:
                exr = exact.to_units(xr) * exact.to_units(yr)
                exact_pair = okf & ((exact.to_units(hz_) + exact.to_units(lz_)) * (1 << (-k)) == exr).astype(bool) & (hr == pr)
            badr = ~(fallback | exact_pair)
            rec.count("judged:dekker-overflow-guard-region", int(reg.sum()))
            if badr.any():
                xb, yb, hb, lb, rb = first_bad(badr, xr, yr, hr, lr, pr)
                rec.violation(site + "-overflow-guard", dict(dtype=numpy.dtype(dt).name, x=xb, y=yb, h=hb, l=lb, rn=rb, scale=scale, fix_overflow=True, count=int(badr.sum())), n=int(badr.sum()))
    if not dom.any():
        return
    xs, ys, hs, ls = x[dom], y[dom], h[dom], l[dom]
    if f.bits == 16:
        ex = xs.astype(numpy.float64) * ys.astype(numpy.float64)  # 22-bit product: exact
        with numpy.errstate(all="ignore"):
            rn = ex.astype(dt)
            err = ex - rn.astype(numpy.float64)
            rep = numpy.isfinite(rn) & (err.astype(dt).astype(numpy.float64) == err)
    else:
        ex = exact.to_units(xs) * exact.to_units(ys)  # units 2^(2k)
        rn = exact.rn_units(ex, 2 * k, dt)
        # error term representable?
        rnf = numpy.where(numpy.isfinite(rn), rn, dt(0))
        err = ex - exact.to_units(rnf) * (1 << (-k))  # in units of 2^(2k); to_units(rn) is in 2^k units
        rep = exact.representable_units(err, 2 * k, dt) & numpy.isfinite(rn)
    n = int(rep.sum())
    rec.count("judged:dekker" if site.startswith("fpa") else "judged:" + site.split(":")[0], n)
    rec.count("out_of_domain:" + site, x.size - n)
    if n == 0:
        return
    xs, ys, hs, ls, ex, rn = xs[rep], ys[rep], hs[rep], ls[rep], ex[rep], rn[rep]
    okfin = fin(hs, ls)
    hz = numpy.where(okfin, hs, dt(0))
    lz = numpy.where(okfin, ls, dt(0))
    if f.bits == 16:
        bad_exact = ~okfin | (hz.astype(numpy.float64) + lz.astype(numpy.float64) != ex)
    else:
        tot = (exact.to_units(hz) + exact.to_units(lz)) * (1 << (-k))
        bad_exact = ~okfin | (tot != ex).astype(bool)
    bad_rn = okfin & ~((hs == rn) | ((hs == 0) & (rn == 0)))
    bad = bad_exact | bad_rn
    if bad.any():
        xb, yb, hb, lb, rb = first_bad(bad, xs, ys, hs, ls, rn)
        rec.violation(site + ("-exact" if bad_exact.any() else "-rn"), dict(dtype=numpy.dtype(dt).name, x=xb, y=yb, h=hb, l=lb, rn=rb, scale=scale, fix_overflow=fix_overflow, count=int(bad.sum())), n=int(bad.sum()))
    inexact = lz != 0
    if cls is not None and inexact.any():
        subn = (numpy.abs(hs) < numpy.finfo(dt).smallest_normal)
        bigr = numpy.abs(hs.astype(numpy.float64)) > big / 4
        for a_, b_ in set(zip(subn[inexact][:5000].tolist(), bigr[inexact][:5000].tolist())):
            rec.cls(site, numpy.dtype(dt).name, cls, scale, fix_overflow, "sub" if a_ else "big" if b_ else "mid")


_NB16 = numpy.array([0 if v == 0 else (v >> ((v & -v).bit_length() - 1)).bit_length() for v in range(2048)], dtype=numpy.int64)


def nbits16(a):
    """significant bits of float16 values via a table on the 11-bit significand"""
    b = numpy.ascontiguousarray(a).view(numpy.uint16)
    e = (b >> 10) & 0x1F
    sig = numpy.where(e == 0, b & 0x3FF, (b & 0x3FF) | 0x400)
    return _NB16[sig]


def is_arr(v):
    return isinstance(v, (numpy.ndarray, numpy.floating))


def install(rec, fpa, apmath, utils):
    """contracts on the module attributes, so internal call sites (mul_dekker -> split_veltkamp, two_sum -> add_2sum) are observed too"""

    def post_add_2sum(a, k, r):
        x, y = a[1], a[2]
        if not (is_arr(x) and is_arr(y)):
            raise contracts.Skip("symbolic")
        judge_sum(rec, "fpa.add_2sum", x, y, r[0], r[1], fast=k.get("fast", False), fix_overflow=k.get("fix_overflow", False), cls=CUR.get("cls"))

    def post_split(a, k, r):
        x = a[1]
        if not is_arr(x):
            raise contracts.Skip("symbolic")
        if k.get("C") is not None:
            raise contracts.Skip("custom-C")
        judge_split(rec, "fpa.split_veltkamp", x, r[0], r[1], scale=k.get("scale", False))

    def post_dekker(a, k, r):
        x, y = a[1], a[2]
        if not (is_arr(x) and is_arr(y)):
            raise contracts.Skip("symbolic")
        if k.get("assume_fma") or k.get("C") is not None:
            raise contracts.Skip("fma-or-custom-C")
        judge_prod(rec, "fpa.mul_dekker", x, y, r[0], r[1], scale=k.get("scale", True), fix_overflow=k.get("fix_overflow", False), cls=CUR.get("cls"))

    contracts.attach(fpa, "add_2sum", post_add_2sum, rec, site="fpa.add_2sum")
    contracts.attach(fpa, "split_veltkamp", post_split, rec, site="fpa.split_veltkamp")
    contracts.attach(fpa, "mul_dekker", post_dekker, rec, site="fpa.mul_dekker")


CUR = {}


class RefArray(numpy.ndarray):
    """ndarray that tolerates the .reference(...) calls of the inlined copies in algorithms.py"""

    def reference(self, *a, **k):
        return self


def ref(a):
    return numpy.asarray(a).view(RefArray)


def drive_pairs(rec, dt, X, Y, cls, fpa, apmath, utils, alg, full=True, opts="all"):
    """call every EFT entry point on the pair arrays; contracts (fpa) and inline judges (copies) decide"""
    ctx = utils.NumpyContext(dt)
    CUR["cls"] = cls
    with numpy.errstate(all="ignore"):
        for fast in (False, True):
            for fo in (False, True):
                if opts == "all" or (not fo):
                    fpa.add_2sum(ctx, X, Y, fast=fast, fix_overflow=fo)
        for scale in (True, False):
            for fo in (False, True):
                if opts == "all" or (scale and not fo):
                    fpa.mul_dekker(ctx, X, Y, scale=scale, fix_overflow=fo)
        if not full:
            return
        # apmath wrappers (go through the contracted fpa functions, and are judged at their own boundary too)
        s, t = apmath.two_sum(ctx, X, Y)
        judge_sum(rec, "apmath.two_sum", X, Y, s, t)
        s, t = apmath.quick_two_sum(ctx, X, Y)
        judge_sum(rec, "apmath.quick_two_sum", X, Y, s, t, fast=True)
        h, l = apmath.two_prod(ctx, X, Y)
        judge_prod(rec, "apmath.two_prod", X, Y, h, l, scale=True)
        # the fma-assuming variants cannot be judged for value here (NumPy has no fused multiply-add, the error word is meaningless), but every
        # combination of the documented options must at least evaluate: the high word is the rounded product
        for kw in (dict(assume_fma=True), dict(assume_fma=True, fix_overflow=True), dict(assume_fma=True, scale=False, fix_overflow=True)):
            rec.count("option-combinations:evaluated")
            try:
                h2, _ = fpa.mul_dekker(ctx, X, Y, **kw)
                h3, _ = apmath.two_prod(ctx, X, Y, **{k_: v_ for k_, v_ in kw.items() if k_ != "scale"})
            except Exception as e:
                rec.violation("option-combination-raises", dict(dtype=numpy.dtype(dt).name, options=kw, exc=f"{type(e).__name__}: {e}"[:200]))
                continue
            fin = numpy.isfinite(X * Y)
            if not (numpy.asarray(h2)[fin] == (X * Y)[fin]).all():
                rec.violation("fma-path-high-word", dict(dtype=numpy.dtype(dt).name, options=kw))
        # utils copies
        s, t = utils.add_2sum(X, Y)
        judge_sum(rec, "utils.add_2sum", X, Y, s, t)
        s, t = utils.add_fast2sum(X, Y)
        judge_sum(rec, "utils.add_fast2sum", X, Y, s, t, fast=True)
        s, t = utils.double_2sum(X)
        judge_sum(rec, "utils.double_2sum", X, X, s, t)
        p = exact.fmt(dt).p
        C = dt(2 ** ((p + 1) // 2) + 1)
        h, l = utils.multiply_dekker(X, Y, C=C)
        judge_prod(rec, "utils.multiply_dekker", X, Y, h, l, scale=False)
        h, l = utils.square_dekker(X, C=C)
        judge_prod(rec, "utils.square_dekker", X, X, h, l, scale=False, square=True)
        xh, xl = utils.split_veltkamp(X, C=C)
        judge_split(rec, "utils.split_veltkamp", X, xh, xl, scale=False, s_bits=(p + 1) // 2)
        # algorithms.py inlined copies (used inside complex log/log1p)
        s, t = alg.add_2sum(ref(X), ref(Y))
        judge_sum(rec, "alg.add_2sum", X, Y, numpy.asarray(s), numpy.asarray(t))
        s, t = alg.add_2sum(ref(X), ref(Y), fast=True)
        judge_sum(rec, "alg.add_fast2sum", X, Y, numpy.asarray(s), numpy.asarray(t), fast=True)
        s, t = alg.sum_2sum([ref(X), ref(Y)])
        judge_sum(rec, "alg.sum_2sum", X, Y, numpy.asarray(s), numpy.asarray(t))
        xh, xl = alg.split_veltkamp(None, C, ref(X))
        judge_split(rec, "alg.split_veltkamp", X, numpy.asarray(xh), numpy.asarray(xl), scale=False, s_bits=(p + 1) // 2)
        h, l = alg.square_dekker(None, ref(X), xh, xl)
        judge_prod(rec, "alg.square_dekker", X, X, numpy.asarray(h), numpy.asarray(l), scale=False, square=True)


def mods():
    from functional_algorithms import floating_point_algorithms as fpa, apmath, utils, algorithms as alg

    return fpa, apmath, utils, alg


def task_f16_pairs(params, rec):
    fpa, apmath, utils, alg = mods()
    install(rec, fpa, apmath, utils)
    dt = numpy.float16
    allv = exact.all_values(dt)
    finv = allv[numpy.isfinite(allv)]
    xs = finv[params["start"]:: params["step"]]
    # blocks of x against all y
    B = 96
    for i in range(0, xs.size, B):
        xb = xs[i: i + B]
        X = numpy.repeat(xb, finv.size)
        Y = numpy.tile(finv, xb.size)
        drive_pairs(rec, dt, X, Y, "f16-grid", fpa, apmath, utils, alg, full=(params.get("full", False) and i == 0),
                    opts="all" if (params.get("opts", "all") == "all" or (i // B) % 4 == 0) else "default")
    rec.sample(dict(kind="float16 x-block against all finite y", x_first=xs[0], x_count=int(xs.size), y_count=int(finv.size)))
    contracts.detach_all()


def task_f16_split(params, rec):
    fpa, apmath, utils, alg = mods()
    install(rec, fpa, apmath, utils)
    dt = numpy.float16
    allv = exact.all_values(dt)
    finv = allv[numpy.isfinite(allv)]
    ctx = utils.NumpyContext(dt)
    with numpy.errstate(all="ignore"):
        fpa.split_veltkamp(ctx, finv, scale=True)
        fpa.split_veltkamp(ctx, finv, scale=False)
        # the wrapper is judged at its own boundary: apmath.split(ctx, a) is the scaling splitter, valid for every finite a
        xh_, xl_ = apmath.split(ctx, finv)
        judge_split(rec, "apmath.split", finv, xh_, xl_, True)
    # scalar call form as well
    for x in finv[:: 997]:
        with numpy.errstate(all="ignore"):
            fpa.split_veltkamp(ctx, dt(x), scale=True)
    rec.sample(dict(kind="all finite float16 through split_veltkamp", count=int(finv.size)))
    contracts.detach_all()


def task_pairs(params, rec):
    fpa, apmath, utils, alg = mods()
    install(rec, fpa, apmath, utils)
    dt = getattr(numpy, params["dtype"])
    rng = gen.rng_for(params["seed"], 10, params["shard"], exact.fmt(dt).bits)
    n = params["n"]
    ctx = utils.NumpyContext(dt)
    for rep in range(params["reps"]):
        X, Y, c = gen.hostile_pairs(rng, dt, n)
        for ci in range(8):
            m = c == ci
            if m.any():
                drive_pairs(rec, dt, X[m], Y[m], f"gen{ci}", fpa, apmath, utils, alg)
        with numpy.errstate(all="ignore"):
            v = numpy.concatenate([X, Y])
            fpa.split_veltkamp(ctx, v, scale=True)
            fpa.split_veltkamp(ctx, v, scale=False)
            vf_ = v[numpy.isfinite(v)]
            xh_, xl_ = apmath.split(ctx, vf_)
            judge_split(rec, "apmath.split", vf_, xh_, xl_, True)
        if rep == 0:
            rec.sample(dict(dtype=params["dtype"], x=X[0], y=Y[0], gen=int(c[0])))
            rec.sample(dict(dtype=params["dtype"], x=X[1], y=Y[1], gen=int(c[1])))
    contracts.detach_all()


def task_constants(params, rec):
    """every copy of the splitter-constant helper returns 2^ceil(p/2) + 1 for every dtype, on the eager route and (the `largest`-switching helpers that
    only work when traced) through a traced function emitted for NumPy; the traced algorithms.py copy of the splitter is exact with its own constant"""
    import warnings
    import functional_algorithms as fa
    from functional_algorithms import floating_point_algorithms as fpa, algorithms as alg, utils, rewrite as fa_rewrite

    for dt in (numpy.float16, numpy.float32, numpy.float64):
        f = exact.fmt(dt)
        want = float(2 ** ((f.p + 1) // 2) + 1)
        got = {}
        try:
            got["utils.get_veltkamp_splitter_constant"] = float(utils.get_veltkamp_splitter_constant(dt(1)))
        except Exception as e:
            got["utils.get_veltkamp_splitter_constant"] = f"{type(e).__name__}: {e}"
        for modname, mod in (("floating_point_algorithms", fpa), ("algorithms", alg)):
            def make_route(m):
                def route(ctx, x):
                    return m.get_veltkamp_splitter_constant(ctx, ctx.constant("largest", x)) + x * ctx.constant(0, x)

                return route

            route = make_route(mod)

            try:
                with warnings.catch_warnings():
                    warnings.simplefilter("ignore")
                    ctx = fa.Context(paths=[fa.algorithms])
                    g = ctx.trace(route, dt).rewrite(fa.targets.numpy, fa_rewrite)
                    fn = fa.targets.numpy.as_function(g, debug=0)
                    with numpy.errstate(all="ignore"):
                        got[modname + ".get_veltkamp_splitter_constant (traced)"] = float(fn(dt(1)))
            except Exception as e:
                got[modname + ".get_veltkamp_splitter_constant (traced)"] = f"{type(e).__name__}: {e}"[:200]
        try:
            got["floating_point_algorithms.get_veltkamp_splitter_constant (eager)"] = float(fpa.get_veltkamp_splitter_constant(utils.NumpyContext(dt), dt(numpy.finfo(dt).max)))
        except Exception as e:
            got["floating_point_algorithms.get_veltkamp_splitter_constant (eager)"] = f"{type(e).__name__}: {e}"[:200]
        for name, v in got.items():
            rec.count("evaluations")
            rec.count("constants:checked")
            if v != want:
                rec.violation("splitter-constant", dict(dtype=dt.__name__, helper=name, got=v, expected=want))
        # the algorithms.py splitter with its own constant: halves of the documented widths that sum to x, on every float16 / sampled values
        try:
            def split_route(ctx, x):
                C = alg.get_veltkamp_splitter_constant(ctx, ctx.constant("largest", x))
                xh, xl = alg.split_veltkamp(ctx, C, x)
                return ctx.select(x == x, xh, xl) if False else xh

            with warnings.catch_warnings():
                warnings.simplefilter("ignore")
                ctx = fa.Context(paths=[fa.algorithms])
                g = ctx.trace(split_route, dt).rewrite(fa.targets.numpy, fa_rewrite)
                fn = fa.targets.numpy.as_function(g, debug=0)
            xs = exact.all_values(numpy.float16).astype(dt) if f.bits == 16 else gen.hostile_values(gen.rng_for(params.get("seed", 0), 101, f.bits), dt, 4000)
            xs = xs[numpy.isfinite(xs) & (numpy.abs(xs.astype(numpy.float64)) < float(numpy.finfo(dt).max) / (want + 1))]
            with numpy.errstate(all="ignore"):
                xh = numpy.array([fn(v) for v in xs[:: max(1, xs.size // 6000)]], dtype=dt)
            xv = xs[:: max(1, xs.size // 6000)]
            nb = exact.nbits_units(exact.to_units(xh)) if hasattr(exact, "nbits_units") else None
            rec.count("constants:checked", int(xv.size))
            if nb is not None:
                bad = numpy.asarray(nb) > (f.p - (f.p + 1) // 2)
                if bad.any():
                    i = int(numpy.flatnonzero(bad)[0])
                    rec.violation("algorithms.split_veltkamp-high-width", dict(dtype=dt.__name__, x=xv[i], xh=xh[i], bits=int(numpy.asarray(nb)[i]), allowed=f.p - (f.p + 1) // 2), n=int(bad.sum()))
        except Exception as e:
            rec.violation("algorithms.split_veltkamp-exception", dict(dtype=dt.__name__, exc=f"{type(e).__name__}: {e}"[:300]))


def task_split_max(params, rec):
    """utils.split_veltkamp_max: 'maximal s such that (2**s + 1) * x is finite' - every positive finite float16, sampled float32/float64"""
    import warnings
    from functional_algorithms import utils

    for dt in (numpy.float16, numpy.float32, numpy.float64):
        f = exact.fmt(dt)
        pmax = int(-numpy.finfo(dt).machep) - 2
        if f.bits == 16:
            xs = exact.all_values(dt)
            xs = xs[numpy.isfinite(xs) & (xs > 0)]
        else:
            rng = gen.rng_for(params.get("seed", 0), 102, f.bits)
            xs = numpy.abs(gen.hostile_values(rng, dt, 3000))
            big = dt(numpy.finfo(dt).max)
            xs = numpy.concatenate([xs, (big / dt(2.0) ** numpy.arange(0, 60)).astype(dt), gen.neighbours((big / dt(2.0) ** numpy.arange(0, 40)).astype(dt), dt, k=2)])
            xs = xs[numpy.isfinite(xs) & (xs > 0)]
        with warnings.catch_warnings():
            warnings.simplefilter("ignore")
            with numpy.errstate(all="ignore"):
                for x in xs:
                    x = dt(x)
                    s_ = utils.split_veltkamp_max(x)
                    rec.count("evaluations")
                    rec.count("judged:split_veltkamp_max")
                    fin_s = bool(numpy.isfinite(dt(2**s_ + 1) * x)) if s_ >= 0 else False
                    any_ok = bool(numpy.isfinite(dt(2) * x))  # s = 0 is the least demanding choice
                    more = s_ < pmax and bool(numpy.isfinite(dt(2 ** (s_ + 1) + 1) * x))
                    if (any_ok and not fin_s) or (fin_s and more):
                        rec.violation("utils.split_veltkamp_max", dict(dtype=dt.__name__, x=x, s=int(s_), product_finite=fin_s, next_s_also_finite=more))
                        break


TASKS = {"f16_pairs": task_f16_pairs, "f16_split": task_f16_split, "pairs": task_pairs, "constants": task_constants, "split_max": task_split_max}
SHARD_TIMEOUT = {"quick": 1500, "thorough": 7200}


def plan(tier, seed):
    t = [("f16_split", {}), ("constants", dict(seed=seed)), ("split_max", dict(seed=seed))]
    if tier == "quick":
        step = 124 * 16
        for s in range(16):
            t.append(("f16_pairs", dict(start=(s * 124 + 7 * seed) % step, step=step, full=(s == 0))))
        for dtn in ("float16", "float32", "float64"):
            for s in range(2):
                t.append(("pairs", dict(dtype=dtn, shard=s, n=12000, reps=1, seed=seed)))
    else:
        # all finite float16 pairs: 2Sum, Fast2Sum, Dekker(scale) on every pair; the remaining option sets on every 4th x block
        for s in range(128):
            t.append(("f16_pairs", dict(start=s, step=128, full=(s == 0), opts="mixed")))
        for dtn in ("float16", "float32", "float64"):
            for s in range(8):
                t.append(("pairs", dict(dtype=dtn, shard=s, n=40000, reps=8, seed=seed)))
    return t


def replay(site, witness, rec):
    fpa, apmath, utils, alg = mods()
    install(rec, fpa, apmath, utils)
    dt = getattr(numpy, witness["dtype"])
    x = numpy.array([unfl(witness["x"], dt)], dtype=dt)
    if "y" in witness:
        y = numpy.array([unfl(witness["y"], dt)], dtype=dt)
        drive_pairs(rec, dt, x, y, "replay", fpa, apmath, utils, alg)
    else:
        ctx = utils.NumpyContext(dt)
        with numpy.errstate(all="ignore"):
            fpa.split_veltkamp(ctx, x, scale=True)
            fpa.split_veltkamp(ctx, x, scale=False)
    contracts.detach_all()
