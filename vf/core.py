"""Core of the runtime-monitoring framework: recorder, shard runner, verdicts, evidence.

Every property module (vf/props/cXX.py) exposes

    LEVEL      = "exploration" | "translation_validation"
    RULE       = text: how cases are generated, what makes one distinct & non-trivial
    ASSUME     = [text, ...]
    def plan(tier, seed) -> [ (taskname, params-dict), ... ]      # shards
    TASKS      = {taskname: fn(params, rec)}                      # run in a subprocess each
    REQUIRE    = [counter names that must be > 0, else the run is inconclusive]
    def replay(witness, rec)                                      # optional

Monitors call rec.count / rec.cls / rec.sample / rec.violation.  Verdicts are
three-valued: violated (exit 1), held on what was observed (exit 0), inconclusive (exit 2).
"""
import collections
import importlib
import json
import os
import subprocess
import sys
import tempfile
import time
import traceback
import shutil

ROOT = os.path.dirname(os.path.dirname(os.path.abspath(__file__)))
MAX_WITNESSES_PER_SITE = 40


def jsonable(o):
    import numpy
    import fractions

    if isinstance(o, dict):
        return {str(k): jsonable(v) for k, v in o.items()}
    if isinstance(o, (list, tuple, set, frozenset)):
        return [jsonable(v) for v in o]
    if isinstance(o, (numpy.bool_, bool)):
        return bool(o)
    if isinstance(o, numpy.integer):
        return int(o)
    if isinstance(o, numpy.floating):
        return fl(o)
    if isinstance(o, numpy.complexfloating):
        return [fl(o.real), fl(o.imag)]
    if isinstance(o, complex):
        return [fl(o.real), fl(o.imag)]
    if isinstance(o, float):
        return fl(o)
    if isinstance(o, numpy.ndarray):
        return jsonable(o.tolist())
    if isinstance(o, fractions.Fraction):
        return str(o)
    if o is None or isinstance(o, (int, str)):
        return o
    return repr(o)


def fl(x):
    """float -> JSON-safe, exactly replayable literal (hex string keeps every bit, incl. -0.0, inf, nan)."""
    import numpy

    if isinstance(x, numpy.floating):
        return {"dtype": x.dtype.name, "hex": float(x).hex(), "repr": repr(float(x))}
    return {"hex": float(x).hex(), "repr": repr(float(x))}


def unfl(d, dtype=None):
    import numpy

    if isinstance(d, dict) and "hex" in d:
        v = float.fromhex(d["hex"])
        dt = dtype or d.get("dtype")
        if dt is not None:
            return numpy.dtype(dt).type(v)
        return v
    return d


class Recorder:
    def __init__(self, pid):
        self.pid = pid
        self.counters = collections.Counter()
        self.classes = set()
        self.samples = []
        self.violations = []  # dicts: site, mechanism-relevant witness fields
        self.viol_counts = collections.Counter()
        self.known_counts = collections.Counter()
        self.inconclusive = []
        self.notes = {}

    # ---- observation API used by monitors
    def count(self, key, n=1):
        self.counters[key] += int(n)

    def cls(self, *key):
        self.classes.add(json.dumps(jsonable(key), sort_keys=True))

    def sample(self, obj, cap=6):
        if len(self.samples) < cap:
            self.samples.append(jsonable(obj))

    def violation(self, site, witness, n=1):
        """site: stable name of the monitor; witness: dict with literal inputs, enough to replay."""
        self.viol_counts[site] += int(n)
        w = jsonable(witness)
        kid = match_known(self.pid, site, w)
        if kid is not None:
            # classified at recording time so that listed findings can never crowd out an unlisted violation
            self.known_counts[kid] += int(n)
            if sum(1 for v in self.violations if v.get("known") == kid) < 3:
                self.violations.append({"site": site, "witness": w, "known": kid})
            return
        k = sum(1 for v in self.violations if v["site"] == site and "known" not in v)
        if k < MAX_WITNESSES_PER_SITE:
            self.violations.append({"site": site, "witness": w})

    def inconc(self, why):
        if why not in self.inconclusive:
            self.inconclusive.append(why)

    def note(self, key, value):
        self.notes[key] = jsonable(value)

    # ---- (de)serialisation for shards
    def dump(self):
        return dict(
            counters=dict(self.counters),
            classes=sorted(self.classes),
            samples=self.samples,
            violations=self.violations,
            viol_counts=dict(self.viol_counts),
            known_counts=dict(self.known_counts),
            inconclusive=self.inconclusive,
            notes=self.notes,
        )

    def merge(self, d):
        self.counters.update(d["counters"])
        self.classes.update(d["classes"])
        for s in d["samples"]:
            if len(self.samples) < 8:
                self.samples.append(s)
        for v in d["violations"]:
            if "known" in v:
                if sum(1 for w in self.violations if w.get("known") == v["known"]) < 3:
                    self.violations.append(v)
                continue
            k = sum(1 for w in self.violations if w["site"] == v["site"] and "known" not in w)
            if k < MAX_WITNESSES_PER_SITE:
                self.violations.append(v)
        self.viol_counts.update(d["viol_counts"])
        self.known_counts.update(d.get("known_counts", {}))
        for w in d["inconclusive"]:
            self.inconc(w)
        for k, v in d["notes"].items():
            if k in self.notes and isinstance(v, dict) and isinstance(self.notes[k], dict):
                # dict notes merge by summing integer leaves (coverage tables)
                for kk, vv in v.items():
                    if isinstance(vv, int) and isinstance(self.notes[k].get(kk), int):
                        self.notes[k][kk] += vv
                    else:
                        self.notes[k].setdefault(kk, vv)
            else:
                self.notes.setdefault(k, v)


def assert_repo_under_test():
    import functional_algorithms

    p = os.path.realpath(functional_algorithms.__file__)
    alt = os.environ.get("VF_EXPERIMENT_PKG_ROOT")  # manual experiments on a scratch worktree only (tools/try_worktree.sh); never set by a registered command
    if alt and p.startswith(os.path.realpath(alt) + "/"):
        os.environ["VERIF_EVIDENCE_SKIP"] = "1"
        return
    if not p.startswith("/repo/"):
        print(f"INCONCLUSIVE functional_algorithms imported from {p}, not /repo")
        sys.exit(2)


def load(pid):
    return importlib.import_module("vf.props." + pid.lower())


def run_shard(pid, taskname, params_json, out):
    """child process entry"""
    import warnings

    warnings.simplefilter("ignore")
    assert_repo_under_test()
    mod = load(pid)
    rec = Recorder(pid)
    params = json.loads(params_json)
    t0 = time.time()
    try:
        mod.TASKS[taskname](params, rec)
    except Exception:
        rec.inconc(f"task {taskname} crashed: " + traceback.format_exc()[-1500:])
    rec.count("_task_wall_ms", int(1000 * (time.time() - t0)))
    with open(out, "w") as f:
        json.dump(rec.dump(), f)


def run_tasks(pid, tasks, rec, workers=None, timeout=None):
    """Run tasks in subprocess shards (never multiprocessing.Pool); merge into rec."""
    workers = workers or min(16, os.cpu_count() or 1)
    tmp = tempfile.mkdtemp(prefix=f"vf-{pid}-", dir="/var/tmp")
    try:
        pending = list(enumerate(tasks))
        running = {}
        results = {}
        env = dict(os.environ)
        while pending or running:
            while pending and len(running) < workers:
                i, (name, params) = pending.pop(0)
                out = os.path.join(tmp, f"shard{i}.json")
                errf = open(os.path.join(tmp, f"shard{i}.err"), "w")
                p = subprocess.Popen(
                    [sys.executable, "-m", "vf.cli", pid, "--shard-task", name, "--shard-params", json.dumps(params), "--shard-out", out],
                    cwd=ROOT, env=env, stdout=errf, stderr=subprocess.STDOUT,
                )
                running[i] = (p, out, time.time(), name, errf)
            time.sleep(0.02)
            for i in list(running):
                p, out, t0, name, errf = running[i]
                rc = p.poll()
                if rc is None:
                    if timeout and time.time() - t0 > timeout:
                        p.kill()
                        p.wait()
                        errf.close()
                        rec.inconc(f"shard {i} ({name}) hit the {timeout}s watchdog")
                        del running[i]
                    continue
                errf.close()
                del running[i]
                if rc != 0 or not os.path.exists(out):
                    tail = open(os.path.join(tmp, f"shard{i}.err")).read()[-1200:]
                    rec.inconc(f"shard {i} ({name}) exited {rc}: {tail}")
                    continue
                with open(out) as f:
                    results[i] = json.load(f)
        for i in sorted(results):
            rec.merge(results[i])
    finally:
        shutil.rmtree(tmp, ignore_errors=True)


def load_known_findings(pid):
    path = os.path.join(ROOT, "known_findings.json")
    if not os.path.exists(path):
        return []
    with open(path) as f:
        data = json.load(f)
    return [e for e in data.get("findings", []) if e.get("property") == pid]


_KF_CACHE = {}


def match_known(pid, site, w):
    """id of the committed known finding whose mechanism predicate matches this witness, else None"""
    from . import kf_predicates

    if pid not in _KF_CACHE:
        _KF_CACHE[pid] = load_known_findings(pid)
    for e in _KF_CACHE[pid]:
        pred = getattr(kf_predicates, e["predicate"], None)
        if pred is None:
            continue
        try:
            if pred(site, w):
                return e["id"]
        except Exception:
            continue
    return None


def classify(pid, rec):
    findings = {e["id"]: e for e in load_known_findings(pid)}
    known_hits = collections.OrderedDict()
    for kid, n in rec.known_counts.items():
        if kid in findings:
            known_hits[kid] = [findings[kid], n]
    unknown = [v for v in rec.violations if "known" not in v]
    return known_hits, unknown


def finish(pid, tier, seed, mod, rec, t0, replay_mode=False):
    known_hits, unknown = classify(pid, rec)
    # REQUIRE: counters that must be positive
    for key in getattr(mod, "REQUIRE", []):
        if rec.counters.get(key, 0) <= 0:
            rec.inconc(f"deciding monitor never observed anything: counter {key} == 0")
    evaluations = int(rec.counters.get("evaluations", 0))
    lvl = mod.LEVEL
    coverage = dict(
        evaluations=evaluations,
        distinct_nontrivial=len(rec.classes),
        rule=mod.RULE,
        samples=rec.samples[:8] or [],
        counters={k: v for k, v in sorted(rec.counters.items()) if not k.startswith("_")},
        explanation=getattr(mod, "EXPLANATION", ""),
        known_findings_hit={k: v[1] for k, v in known_hits.items()},
        violation_sites=dict(rec.viol_counts),
        inconclusive=rec.inconclusive,
        notes=rec.notes,
    )
    if getattr(mod, "EXHAUSTIVE", None):
        ex = mod.EXHAUSTIVE(tier) if callable(mod.EXHAUSTIVE) else mod.EXHAUSTIVE
        if ex:
            coverage["exhaustive"] = True
            coverage["exhaustive_subspace"] = ex
    if lvl == "translation_validation":
        coverage["programs"] = int(rec.counters.get("programs", 0))
        coverage["disagreements_checked"] = int(rec.counters.get("disagreements_checked", 0))
    ev = dict(
        property_id=pid, tier=tier, seed=int(seed), level=lvl, coverage=coverage,
        assumptions=list(getattr(mod, "ASSUME", [])), wall_s=round(time.time() - t0, 2),
        violations=len(unknown),
    )
    if not replay_mode and not os.environ.get("VERIF_EVIDENCE_SKIP"):  # (the skip is used only by tools/try_seed.sh on a deliberately broken tree)
        os.makedirs(os.path.join(ROOT, "evidence"), exist_ok=True)
        with open(os.path.join(ROOT, "evidence", f"{pid}.json"), "w") as f:
            json.dump(ev, f, indent=1, sort_keys=True)
        if tier == "thorough":
            # the quick run that follows rewrites evidence/<id>.json: keep what the deep exploration observed beside it
            os.makedirs(os.path.join(ROOT, "evidence-thorough"), exist_ok=True)
            with open(os.path.join(ROOT, "evidence-thorough", f"{pid}.json"), "w") as f:
                json.dump(ev, f, indent=1, sort_keys=True)
    for k, (e, n) in known_hits.items():
        print(f"KNOWN-FINDING: property={pid} {e['id']}: {e['text']} (observed {n} times in this run)")
    if unknown:
        os.makedirs(os.path.join(ROOT, "replays"), exist_ok=True)
        seen_sites = set()
        for v in unknown:
            if v["site"] in seen_sites:
                continue
            seen_sites.add(v["site"])
            path = os.path.join(ROOT, "replays", f"{pid}-{v['site'].replace('/', '_').replace(' ', '_')[:60]}-seed{seed}.json")
            with open(path, "w") as f:
                json.dump(dict(property=pid, site=v["site"], witness=v["witness"], seed=int(seed), tier=tier,
                               others=[w for w in unknown if w["site"] == v["site"]][1:6]), f, indent=1)
            print(f"VIOLATION property={pid} replay={path}")
            print(f"  site={v['site']} count={rec.viol_counts.get(v['site'])} witness={json.dumps(v['witness'])[:600]}")
        return 1
    if rec.inconclusive:
        for w in rec.inconclusive:
            print(f"INCONCLUSIVE property={pid} {w[:1500]}")
        return 2
    print(f"HELD property={pid} tier={tier} seed={seed} evaluations={evaluations} distinct_nontrivial={len(rec.classes)} "
          f"known_findings={list(known_hits)} wall={time.time()-t0:.1f}s")
    return 0
