"""C09 child: runs one generation *history* in a fresh interpreter and prints {key: sha256} (and the texts on request).

history = {order: "sorted"|"reversed"|"shuffle:<seed>", repeat: k, reuse_context: bool, pollution: [names], keys: [...]|null, texts: bool}
"""
import hashlib
import io
import json
import random
import sys
import warnings
import contextlib

warnings.simplefilter("ignore")

import numpy  # noqa: E402
import functional_algorithms as fa  # noqa: E402
from functional_algorithms import rewrite  # noqa: E402

TARGETS = ["python", "numpy", "stablehlo", "xla_client", "cpp", "lax"]


def all_keys():
    keys = []
    for tname in TARGETS:
        target = getattr(fa.targets, tname)
        for fname, sigs in target.trace_arguments.items():
            if getattr(fa.algorithms, fname, None) is None:
                continue
            for sig in sigs:
                keys.append(f"{tname}|{fname}|{','.join(sig)}|")
                if tname == "numpy":
                    keys.append(f"{tname}|{fname}|{','.join(sig)}|debug=1")
    for name in APMATH:
        keys.append(f"lax|apmath:{name}||")
    for tname in ("python", "numpy", "stablehlo", "xla_client", "cpp"):
        for name in USERFUNCS:
            if name == "scaled" and tname != "xla_client":
                continue  # needs a context with a default constant type
            if name.startswith("prov") and tname not in ("python", "cpp"):
                continue  # targets without a native square: the implementation comes from the context paths
            keys.append(f"{tname}|user:{name}|{'|'}".replace("||", "|" + ",".join(USER_SIG[tname] for _ in range(USERFUNCS[name][1])) + "|"))
    return sorted(keys)


def _uf_scaled(ctx, x):
    return x * ctx.sqrt(2)  # a context operation on a bare number: a temporary symbol is made for it


def _uf_named(ctx, x, y):
    t = (x * y).reference("t")
    u = (x + y).reference("t")
    return ctx(t * t + u * u + t)


def _uf_literals(ctx, x, y):
    return (x * 0.1 + ctx.constant(2, x)) / (y - 0.1) + ctx.constant(2, y) * ctx.constant("largest", x)


def _uf_selects(ctx, x, y):
    c = x < y
    return ctx.select(ctx.logical_or(c, ctx.logical_or(x == y, y < 0.5)), ctx.select(c, x, y), ctx.sqrt(abs(x)) + ctx.exp(y))


def _uf_named_cmp(ctx, x, y):
    # eq / ne between a named constant and a number: keys that do not order, the canonical operand order has to come from somewhere seed-independent
    a = ctx.select(ctx.constant("eps", x) == ctx.constant(2.220446049250313e-16, x), x, -x)
    b = ctx.select(ctx.constant("pi", y) != ctx.constant(3.5, y), y, x)
    c = ctx.select(ctx.constant(2.5, x) == ctx.constant("largest", x), a, b)
    d = ctx.select(ctx.constant("smallest", x) != ctx.constant(7, x), c, a)
    return a + b + c + d


def _uf_prov(edition):
    """two provider objects that carry the same __name__ (a class defined again in a session, a reloaded module) and implement `square` differently"""
    if edition == 1:
        class Impl:
            @staticmethod
            def square(ctx, x):
                return x * x
    else:
        class Impl:
            @staticmethod
            def square(ctx, x):
                return ctx.exp(ctx.log(abs(x)) * 2)
    return Impl


def _uf_prov_fn(ctx, x):
    return ctx.square(x) + 1


USERFUNCS = {"scaled": (_uf_scaled, 1), "named": (_uf_named, 2), "literals": (_uf_literals, 2), "selects": (_uf_selects, 2), "named_cmp": (_uf_named_cmp, 2),
             "prov1": (_uf_prov_fn, 1), "prov2": (_uf_prov_fn, 1)}
USER_SIG = {"python": ":float", "numpy": ":float32", "stablehlo": ":float", "xla_client": ":float", "cpp": ":float32"}


APMATH = {
    "two_sum_unsafe": ("two_sum", ("x:ArrayLike", "y:ArrayLike"), dict(fix_overflow=False, assume_fma=False)),
    "two_sum_general": ("two_sum", ("x:ArrayLike", "y:ArrayLike"), dict(fix_overflow=True, assume_fma=False)),
    "two_prod_unsafe": ("two_prod", ("x:ArrayLike", "y:ArrayLike"), dict(scale=False, fix_overflow=False, assume_fma=False)),
    "two_prod_general": ("two_prod", ("x:ArrayLike", "y:ArrayLike"), dict(scale=True, fix_overflow=True, assume_fma=False)),
    "fma_unsafe": ("fma", ("x:ArrayLike", "y:ArrayLike", "z:ArrayLike"), dict(fix_overflow=False, assume_fma=False, algorithm="apmath", functional=True, scale=False, size=None, possibly_zero_z=False)),
    "fma_general": ("fma", ("x:ArrayLike", "y:ArrayLike", "z:ArrayLike"), dict(fix_overflow=True, assume_fma=False, algorithm="a7", functional=True, scale=True, size=None, possibly_zero_z=True)),
}


def generate(key, ctx=None):
    tname, fname, sig, opt = key.split("|")
    target = getattr(fa.targets, tname)
    with contextlib.redirect_stdout(io.StringIO()):
        if fname.startswith("apmath:"):
            import functional_algorithms.apmath_algorithms  # noqa

            name = fname.split(":")[1]
            func, args, kwargs = APMATH[name]
            if ctx is None:
                ctx = fa.Context(paths=[fa.apmath_algorithms], parameters=dict(dtypes=[numpy.float64, numpy.float32, numpy.float16]))
            g = ctx.trace(getattr(fa.apmath, func), *args, override_name=name, **kwargs)
            g = g.rewrite(target, fa.rewrite, fa.rewrite)
            return g.tostring(target, tab="")
        sig = tuple(sig.split(",")) if sig else ()
        alt = tname == "xla_client"
        if ctx is None and fname.startswith("user:prov"):
            ctx = fa.Context(paths=[_uf_prov(int(fname[-1]))])
        if ctx is None:
            ctx = fa.Context(paths=[fa.algorithms], enable_alt=alt, default_constant_type="FloatType" if alt else None)
        func = USERFUNCS[fname.split(":")[1]][0] if fname.startswith("user:") else getattr(fa.algorithms, fname)
        g = ctx.trace(func, *sig).rewrite(target, rewrite)
        if opt == "debug=1":
            return g.tostring(target, debug=1)
        return g.tostring(target)


def pollute(name, rnd):
    with contextlib.redirect_stdout(io.StringIO()):
        if name == "other-targets":
            for k in rnd.sample(all_keys(), 25):
                try:
                    generate(k)
                except Exception:
                    pass
        elif name == "alt-context":
            ctx = fa.Context(paths=[fa.algorithms], enable_alt=True, default_constant_type="FloatType")
            for fn in ("hypot", "square", "asin"):
                try:
                    ctx.trace(getattr(fa.algorithms, fn), *((":float32", ":float32") if fn == "hypot" else (":complex64",))).rewrite(fa.targets.xla_client, rewrite)
                except Exception:
                    pass
        elif name == "tmp-symbols":
            ctx = fa.Context()
            for i in range(rnd.randint(1, 50)):
                ctx.symbol(None, "float32")
            fa.utils.warn_once("vf pollution warning %d" % rnd.randint(0, 5))
        elif name == "failing-traces":
            ctx = fa.Context(paths=[fa.algorithms])
            for fn, sig in (("hypot", (":complex64", ":complex64")), ("nonexistent", (":float32",))):
                try:
                    ctx.trace(getattr(fa.algorithms, fn), *sig).rewrite(fa.targets.stablehlo, rewrite)
                except Exception:
                    pass
        elif name == "deep-first-false":
            ctx = fa.Context(paths=[fa.algorithms])
            for fn in ("asin", "log1p", "atanh"):
                try:
                    ctx.trace(getattr(fa.algorithms, fn), ":complex64").rewrite(fa.targets.numpy, rewrite, deep_first=False)
                except Exception:
                    pass
        elif name == "apmath-first":
            for k in [k for k in all_keys() if "apmath:" in k]:
                try:
                    generate(k)
                except Exception:
                    pass
        elif name == "special-functions":
            try:
                import functional_algorithms.special  # noqa
                ctx = fa.Context(paths=[fa.algorithms])
                ctx.trace(fa.algorithms.real_asinh, ":float64").rewrite(fa.targets.cpp, rewrite)
            except Exception:
                pass
        elif name == "expression-churn":
            ctx = fa.Context(paths=[fa.algorithms])
            x = ctx.symbol("x", "float32")
            e = x
            for i in range(rnd.randint(10, 200)):
                e = e * x + ctx.constant(i, x)
            e.rewrite(rewrite)


SHARED_FUNCS = ["absolute", "acosh", "asin", "atanh", "log1p", "sqrt", "exp", "square"]
SHARED_TARGETS = ["python", "numpy", "stablehlo", "cpp"]  # targets that share the default context flavour (xla_client wants the alternative constant context)


def shared_context(pairs):
    """one Context, one traced graph, printed for target A and then for target B: B's text against B's text from a context of its own"""
    out = {}
    for fname, a, b in pairs:
        func = getattr(fa.algorithms, fname)
        try:
            with contextlib.redirect_stdout(io.StringIO()):
                ctx = fa.Context(paths=[fa.algorithms])
                g = ctx.trace(func, ":complex")
                ta = g.rewrite(getattr(fa.targets, a), rewrite).tostring(getattr(fa.targets, a))
                tb = g.rewrite(getattr(fa.targets, b), rewrite).tostring(getattr(fa.targets, b))
                ctx2 = fa.Context(paths=[fa.algorithms])
                alone = ctx2.trace(func, ":complex").rewrite(getattr(fa.targets, b), rewrite).tostring(getattr(fa.targets, b))
        except NotImplementedError:
            out[f"{fname}|{a}|{b}"] = dict(refused=True)
            continue
        except Exception as e:
            out[f"{fname}|{a}|{b}"] = dict(error=f"{type(e).__name__}: {e}"[:300])
            continue
        out[f"{fname}|{a}|{b}"] = dict(same=tb == alone, after=tb if tb != alone else "", alone=alone if tb != alone else "")
    return out


def main():
    h = json.loads(sys.argv[1])
    if "shared_context" in h:
        print(json.dumps(dict(shared=shared_context(h["shared_context"]))))
        return
    keys = h.get("keys") or all_keys()
    rnd = random.Random(h.get("order", "sorted"))
    order = h.get("order", "sorted")
    ks = sorted(keys)
    if order == "reversed":
        ks = ks[::-1]
    elif order.startswith("shuffle"):
        rnd.shuffle(ks)
    prnd = random.Random(str(h.get("pollution")))
    for p in h.get("pollution", []):
        pollute(p, prnd)
    out = {}
    texts = {}
    repeat = int(h.get("repeat", 1))
    errors = {}
    shared = {}
    for k in ks:
        for r in range(repeat):
            ctx = None
            try:
                if h.get("interleave_pollution") and r == 0 and prnd.random() < 0.2:
                    pollute(prnd.choice(["tmp-symbols", "expression-churn", "failing-traces"]), prnd)
                t = generate(k)
            except NotImplementedError as e:
                t = "NotImplementedError"
            except Exception as e:
                t = f"EXC {type(e).__name__}: {e}"[:300]
            d = hashlib.sha256(t.encode()).hexdigest()
            if k in out and out[k] != d:
                errors[k] = f"repetition {r} in one process differs from repetition 0"
                texts[k + "#rep"] = t
            else:
                out[k] = d
                if h.get("texts"):
                    texts[k] = t
    print(json.dumps(dict(digests=out, errors=errors, texts=texts)))


if __name__ == "__main__":
    main()
