"""Independent interpreters of arbitrary Expr DAGs (not only apply graphs):

eval_float : vectorised evaluation on numpy arrays in each node's static dtype, with a *clean* mask = assignments on which no
             node produced NaN, overflow, underflow or a division by zero (the side condition of C04's floating-point clause)
eval_Q     : exact rational evaluation (Fraction / bool), partial: UNDEF where real arithmetic does not define the value
"""
from fractions import Fraction as F
import math
import warnings

import numpy

from .graph import NPDT, UN, BIN, const_value

UNDEF = object()    # truly undefined in real arithmetic (division by zero, sqrt of a negative number, infinite constants)
UNKNOWN = object()  # defined but not decidable in exact rational arithmetic (irrational / transcendental value)


def node_dtype(e, default=numpy.float64):
    try:
        t = e.get_type()
        return NPDT.get(str(t), default)
    except Exception:
        return default


def symbols_of(expr):
    from functional_algorithms import Expr

    seen, out, stack = set(), [], [expr]
    while stack:
        e = stack.pop()
        if not isinstance(e, Expr) or id(e) in seen:
            continue
        seen.add(id(e))
        if e.kind == "symbol":
            out.append(e)
        elif e.kind == "constant":
            stack.append(e.operands[1]) if False else None
            if isinstance(e.operands[0], Expr):
                stack.append(e.operands[0])
        else:
            stack.extend(e.operands)
    return sorted(out, key=lambda s: (s.operands[0], str(s.operands[1])))


def eval_float(expr, env, cancel_updown=False):
    """env: {id(symbol expr) or symbol name: array}.  Returns (value, clean mask).
    cancel_updown: read upcast(downcast(x)) as x (used to factor the known upcast/downcast cancellation out of whole-program comparisons)."""
    from functional_algorithms import Expr

    memo = {}
    n = None
    for v in env.values():
        n = numpy.shape(v)
        break
    clean = numpy.ones(n, dtype=bool)

    def mark(bad):
        nonlocal clean
        clean = clean & ~numpy.broadcast_to(bad, n)

    def ev(e):
        k = id(e)
        if k in memo:
            return memo[k]
        kind = e.kind
        if kind == "symbol":
            r = env[k] if k in env else env[e.operands[0]]
        elif kind == "constant":
            value, like = e.operands
            if isinstance(value, Expr):
                r = ev(value)
            else:
                dt = node_dtype(like)
                if isinstance(value, (bool, numpy.bool_)):
                    r = numpy.bool_(value)
                else:
                    r = const_value(value, dt)
        elif kind == "select":
            c, a, b = map(ev, e.operands)
            r = numpy.where(c, a, b)
        elif kind == "complex":
            a, b = map(ev, e.operands)
            a, b = numpy.broadcast_arrays(numpy.asarray(a), numpy.asarray(b))
            cdt = {numpy.dtype("float32"): numpy.complex64, numpy.dtype("float64"): numpy.complex128}[numpy.result_type(a, b)]
            r = numpy.empty(a.shape, dtype=cdt)
            r.real = a
            r.imag = b
        elif kind == "real":
            r = numpy.asarray(ev(e.operands[0])).real
        elif kind == "imag":
            r = numpy.asarray(ev(e.operands[0])).imag
        elif kind == "upcast" and cancel_updown and e.operands[0].kind == "downcast":
            r = ev(e.operands[0].operands[0])
        elif kind in ("upcast", "downcast"):
            r = numpy.asarray(ev(e.operands[0])).astype(node_dtype(e))
        elif kind == "list":
            r = [ev(o) for o in e.operands]
        elif kind == "item":
            lst = ev(e.operands[0])
            idx = e.operands[1]
            if idx.kind != "constant":
                raise NotImplementedError("item with non-constant index")
            r = lst[int(idx.operands[0])]
        elif kind == "len":
            r = numpy.int64(len(ev(e.operands[0])))
        elif kind in UN:
            a = ev(e.operands[0])
            r = UN[kind](a)
        elif kind in BIN:
            a, b = ev(e.operands[0]), ev(e.operands[1])
            r = BIN[kind](a, b)
        else:
            raise NotImplementedError(kind)
        # classification of this node (floating point results only)
        if kind not in ("symbol", "constant", "list", "item", "len") and not isinstance(r, list):
            rr = numpy.asarray(r)
            if rr.dtype.kind in "fc":
                ops = []
                for o in e.operands:
                    v = memo.get(id(o))
                    if v is not None and not isinstance(v, list) and numpy.asarray(v).dtype.kind in "fc":
                        ops.append(numpy.asarray(v))
                fin_in = numpy.ones(n, dtype=bool)
                nz = numpy.ones(n, dtype=bool)
                for o in ops:
                    fin_in = fin_in & numpy.broadcast_to(numpy.isfinite(o), n)
                    nz = nz & numpy.broadcast_to(o != 0, n)
                rb = numpy.broadcast_to(rr, n)
                bad = numpy.isnan(rb) | (numpy.isinf(rb) & fin_in)
                fdt = rr.real.dtype
                if kind == "divide":
                    bad = bad | numpy.broadcast_to(ops[1] == 0, n)
                if kind in ("multiply", "divide", "square", "exp", "pow", "hypot"):
                    tiny = numpy.abs(rb) < numpy.finfo(fdt).smallest_normal
                    bad = bad | (tiny & nz & fin_in & ~((kind == "exp") & (rb == 0) & False))
                    if kind == "divide":
                        # x / inf -> 0 is exact, not an underflow
                        pass
                mark(bad)
        if not isinstance(r, list):
            rr_ = numpy.asarray(r)
            if rr_.dtype.kind in "fc":
                mark(numpy.isnan(numpy.broadcast_to(rr_, n)))
        memo[k] = r
        return r

    with warnings.catch_warnings():
        warnings.simplefilter("ignore")
        with numpy.errstate(all="ignore"):
            out = ev(expr)
    return out, clean


def named_constant_Q(name, dt):
    fi = numpy.finfo(dt if numpy.dtype(dt).kind == "f" else numpy.float64)
    if name == "largest":
        return F(float(fi.max))
    if name == "smallest":
        return F(float(fi.smallest_normal))
    if name == "smallest_subnormal":
        return F(float(fi.smallest_subnormal))
    if name == "eps":
        return F(float(fi.eps))
    if name == "pi":
        return UNKNOWN
    return UNDEF  # posinf/neginf/nan are not real numbers


def qsqrt(q):
    if q < 0:
        return UNDEF
    n, d = q.numerator, q.denominator
    rn, rd = math.isqrt(n), math.isqrt(d)
    if rn * rn == n and rd * rd == d:
        return F(rn, rd)
    return UNKNOWN


def has_symbol(e, memo):
    from functional_algorithms import Expr

    k = id(e)
    if k in memo:
        return memo[k]
    if e.kind == "symbol":
        r = True
    elif e.kind == "constant":
        r = isinstance(e.operands[0], Expr) and has_symbol(e.operands[0], memo)
    else:
        r = any(has_symbol(o, memo) for o in e.operands if isinstance(o, Expr))
    memo[k] = r
    return r


def eval_Q(expr, env, eager=False, fold_constants=True):
    """exact evaluation; env: {symbol name: Fraction}.  Returns Fraction | bool | list | UNDEF | UNKNOWN.

    eager: select needs both branches defined (a term is defined when all its sub-terms are) - used for 'the original is defined';
    fold_constants: symbol-free sub-expressions denote their float evaluation (hybrid) instead of their exact value (pure).

    - select is piecewise (lazy); every other operation needs all operands (UNDEF wins over UNKNOWN);
    - sub-expressions without symbols denote what constant folding in the node's dtype computes: they are evaluated by the
      float interpreter and converted exactly (the rewriter's documented constant folding 'in target dtype' is not a change of meaning)."""
    from functional_algorithms import Expr

    memo = {}
    hs = {}

    def ev(e):
        k = id(e)
        if k in memo:
            return memo[k]
        r = ev_(e)
        memo[k] = r
        return r

    def combine(args):
        if any(a is UNDEF for a in args):
            return UNDEF
        if any(a is UNKNOWN for a in args):
            return UNKNOWN
        return None

    def ev_(e):
        kind = e.kind
        if fold_constants and kind not in ("symbol", "list", "select") and not has_symbol(e, hs):
            # constant sub-expression: float semantics of the node's dtype
            try:
                v, clean = eval_float(e, {"__dummy__": numpy.zeros(1)})
            except Exception:
                return UNKNOWN
            if isinstance(v, list):
                return UNKNOWN
            v = numpy.asarray(v)
            if v.dtype.kind == "b":
                return bool(v.reshape(-1)[0])
            if v.dtype.kind == "c":
                return UNKNOWN
            x = float(v.reshape(-1)[0])
            if not math.isfinite(x):
                return UNDEF
            if v.dtype.kind in "iu":
                return F(int(v.reshape(-1)[0]))
            return F(x)
        if kind == "symbol":
            return env[e.operands[0]]
        if kind == "constant":
            value, like = e.operands
            if isinstance(value, Expr):
                return ev(value)
            if isinstance(value, (bool, numpy.bool_)):
                return bool(value)
            if isinstance(value, str):
                return named_constant_Q(value, node_dtype(like))
            if isinstance(value, (complex, numpy.complexfloating)):
                return UNKNOWN
            v = float(value) if not isinstance(value, (int, numpy.integer)) else int(value)
            if isinstance(v, float) and not math.isfinite(v):
                return UNDEF
            return F(v)
        if kind == "select":
            c = ev(e.operands[0])
            if eager:
                a_, b_ = ev(e.operands[1]), ev(e.operands[2])
                cc = combine([c, a_, b_])
                if cc is not None:
                    return cc
                return a_ if c else b_
            if c is UNDEF or c is UNKNOWN:
                return c
            return ev(e.operands[1]) if c else ev(e.operands[2])
        if kind == "list":
            r_ = [ev(o) for o in e.operands]
            if eager:
                cc = combine(r_)
                if cc is not None:
                    return cc
            return r_
        if kind == "item":
            lst = ev(e.operands[0])
            idx = ev(e.operands[1])
            c = combine([idx])
            if c is not None:
                return c
            return lst[int(idx)]
        if kind == "len":
            return F(len(e.operands[0].operands))
        args = [ev(o) for o in e.operands]
        c = combine(args)
        if c is not None:
            return c
        if kind in ("upcast", "downcast", "positive"):
            return args[0]
        if kind == "negative":
            return -args[0]
        if kind == "absolute":
            return abs(args[0])
        if kind == "square":
            return args[0] * args[0]
        if kind == "sqrt":
            return qsqrt(args[0])
        if kind == "sign":
            return F((args[0] > 0) - (args[0] < 0))
        if kind == "logical_not":
            return not args[0]
        if kind == "logical_and":
            return bool(args[0]) and bool(args[1])
        if kind == "logical_or":
            return bool(args[0]) or bool(args[1])
        if kind == "logical_xor":
            return bool(args[0]) != bool(args[1])
        if kind == "add":
            return args[0] + args[1]
        if kind == "subtract":
            return args[0] - args[1]
        if kind == "multiply":
            return args[0] * args[1]
        if kind == "divide":
            if args[1] == 0:
                return UNDEF
            return F(args[0]) / F(args[1])
        if kind == "maximum":
            return max(args)
        if kind == "minimum":
            return min(args)
        if kind == "lt":
            return args[0] < args[1]
        if kind == "le":
            return args[0] <= args[1]
        if kind == "gt":
            return args[0] > args[1]
        if kind == "ge":
            return args[0] >= args[1]
        if kind == "eq":
            return args[0] == args[1]
        if kind == "ne":
            return args[0] != args[1]
        if kind == "is_finite":
            return True
        if kind == "floor":
            return F(math.floor(args[0]))
        if kind == "ceil":
            return F(math.ceil(args[0]))
        if kind == "real":
            return UNKNOWN
        return UNKNOWN  # transcendental / complex kinds: not decided in exact arithmetic

    return ev(expr)
