"""E6: independent hand-written parsers for the two non-executable targets.

parse_td(text)   TableGen DRR pattern subset emitted by the StableHLO printer
parse_xla(text)  the C++ subset emitted by the XLA-client printer (works on clang-formatted and unformatted text)

Both return plain trees:  Node(op, template, ref, operands) / Ref(name) / Lit(text) / Token(text)
"""
import re


class ParseError(Exception):
    pass


class Node:
    def __init__(self, op, template=None, ref=None, operands=None):
        self.op, self.template, self.ref, self.operands = op, template, ref, operands or []

    def __repr__(self):
        return f"({self.op}{'<' + self.template + '>' if self.template is not None else ''}{':$' + self.ref if self.ref else ''} {self.operands})"


class Ref:
    def __init__(self, name):
        self.name = name

    def __repr__(self):
        return "$" + self.name


class Lit:
    def __init__(self, text):
        self.text = text

    def __repr__(self):
        return f"Lit({self.text})"


class Token:
    """bare token operand such as StableHLO_ComparisonDirectionValue<"EQ">"""

    def __init__(self, name, template=None):
        self.name, self.template = name, template

    def __repr__(self):
        return f"Token({self.name}<{self.template}>)"


# ------------------------------------------------------------------------------------------------ TableGen patterns
TD_TOK = re.compile(r'\s*(?:(//[^\n]*)|([A-Za-z_][A-Za-z_0-9]*)|(\$[A-Za-z_][A-Za-z_0-9]*)|("(?:[^"\\]|\\.)*")|(.))', re.S)


def td_tokens(text):
    out = []
    pos = 0
    while pos < len(text):
        m = TD_TOK.match(text, pos)
        if not m:
            break
        pos = m.end()
        if m.group(1):
            continue
        if m.group(2):
            out.append(("id", m.group(2)))
        elif m.group(3):
            out.append(("ref", m.group(3)[1:]))
        elif m.group(4):
            out.append(("str", m.group(4)[1:-1]))
        elif m.group(5) and not m.group(5).isspace():
            out.append(("p", m.group(5)))
    return out


class TdParser:
    def __init__(self, text):
        self.t = td_tokens(text)
        self.i = 0

    def peek(self, k=0):
        return self.t[self.i + k] if self.i + k < len(self.t) else ("eof", "")

    def eat(self, kind=None, val=None):
        tok = self.peek()
        if (kind and tok[0] != kind) or (val is not None and tok[1] != val):
            raise ParseError(f"expected {kind} {val!r}, got {tok} at token {self.i}")
        self.i += 1
        return tok

    def pattern(self):
        """def NAME? : Pat<(SRC TYPE:$arg, ...), BODY>;  ->  (name, src_op, [(type, arg)], body)"""
        self.eat("id", "def")
        name = None
        if self.peek()[0] == "id":
            name = self.eat("id")[1]
        self.eat("p", ":")
        self.eat("id", "Pat")
        self.eat("p", "<")
        self.eat("p", "(")
        src = self.eat("id")[1]
        args = []
        while self.peek() != ("p", ")"):
            typ = self.eat("id")[1]
            self.eat("p", ":")
            arg = self.eat("ref")[1]
            args.append((typ, arg))
            if self.peek() == ("p", ","):
                self.eat()
        self.eat("p", ")")
        self.eat("p", ",")
        body = self.operand()
        self.eat("p", ">")
        self.eat("p", ";")
        return name, src, args, body

    def template(self):
        if self.peek() == ("p", "<"):
            self.eat()
            s = self.eat("str")[1]
            self.eat("p", ">")
            return s
        return None

    def operand(self):
        tok = self.peek()
        if tok[0] == "ref":
            self.eat()
            return Ref(tok[1])
        if tok == ("p", "("):
            self.eat()
            op = self.eat("id")[1]
            tmpl = self.template()
            ref = None
            if self.peek() == ("p", ":"):
                self.eat()
                ref = self.eat("ref")[1]
            ops = []
            while self.peek() != ("p", ")"):
                ops.append(self.operand())
                if self.peek() == ("p", ","):
                    self.eat()
            self.eat("p", ")")
            return Node(op, tmpl, ref, ops)
        if tok[0] == "id":
            self.eat()
            return Token(tok[1], self.template())
        raise ParseError(f"unexpected token {tok} at {self.i}")


def parse_td(text):
    p = TdParser(text)
    out = p.pattern()
    if p.peek()[0] != "eof":
        raise ParseError(f"trailing tokens after the pattern: {p.peek()}")
    return out


# ------------------------------------------------------------------------------------------------ XLA client C++ subset
CPP_TOK = re.compile(r"\s*(?:(//[^\n]*)|([A-Za-z_][A-Za-z_0-9]*(?:::[A-Za-z_][A-Za-z_0-9]*)*)|((?:\d+\.?\d*(?:[eE][-+]?\d+)?|\.\d+(?:[eE][-+]?\d+)?)[fFlL]?)|(==|!=|<=|>=|&&|\|\||<<|>>|.))", re.S)


def cpp_tokens(text):
    out, pos = [], 0
    while pos < len(text):
        m = CPP_TOK.match(text, pos)
        if not m:
            break
        pos = m.end()
        if m.group(1):
            continue
        if m.group(2):
            out.append(("id", m.group(2)))
        elif m.group(3):
            out.append(("num", m.group(3)))
        elif m.group(4) and not m.group(4).isspace():
            out.append(("p", m.group(4)))
    return out


class CppParser:
    """function := [template <typename T>] RET NAME ( TYPE a, ... ) { (TYPE ref = expr ;)* return expr ; }"""

    PREC = [("||",), ("&&",), ("|",), ("^",), ("&",), ("==", "!="), ("<", "<=", ">", ">="), ("<<", ">>"), ("+", "-"), ("*", "/", "%")]

    def __init__(self, text):
        self.t = cpp_tokens(text)
        self.i = 0

    def peek(self, k=0):
        return self.t[self.i + k] if self.i + k < len(self.t) else ("eof", "")

    def eat(self, kind=None, val=None):
        tok = self.peek()
        if (kind and tok[0] != kind) or (val is not None and tok[1] != val):
            raise ParseError(f"expected {kind} {val!r}, got {tok} at token {self.i}")
        self.i += 1
        return tok

    def function(self):
        tparam = None
        if self.peek() == ("id", "template"):
            self.eat()
            self.eat("p", "<")
            self.eat("id", "typename")
            tparam = self.eat("id")[1]
            self.eat("p", ">")
        ret = self.type_()
        name = self.eat("id")[1]
        self.eat("p", "(")
        args = []
        while self.peek() != ("p", ")"):
            t = self.type_()
            a = self.eat("id")[1]
            args.append((t, a))
            if self.peek() == ("p", ","):
                self.eat()
        self.eat("p", ")")
        self.eat("p", "{")
        stmts = []
        result = None
        while self.peek() != ("p", "}"):
            if self.peek() == ("id", "return"):
                self.eat()
                result = self.expr()
                self.eat("p", ";")
            else:
                t = self.type_()
                ref = self.eat("id")[1]
                self.eat("p", "=")
                e = self.expr()
                self.eat("p", ";")
                stmts.append((t, ref, e))
        self.eat("p", "}")
        return dict(template=tparam, ret=ret, name=name, args=args, stmts=stmts, result=result)

    def type_(self):
        t = self.eat("id")[1]
        if self.peek() == ("p", "<"):
            self.eat()
            inner = self.type_()
            self.eat("p", ">")
            t = f"{t}<{inner}>"
        return t

    def expr(self, level=0):
        if level == 0 and True:
            c = self.binary(0)
            if self.peek() == ("p", "?"):
                self.eat()
                a = self.expr()
                self.eat("p", ":")
                b = self.expr()
                return Node("?:", operands=[c, a, b])
            return c
        return self.binary(level)

    def binary(self, level):
        if level >= len(self.PREC):
            return self.unary()
        lhs = self.binary(level + 1)
        while self.peek()[0] == "p" and self.peek()[1] in self.PREC[level]:
            op = self.eat()[1]
            rhs = self.binary(level + 1)
            lhs = Node(op, operands=[lhs, rhs])
        return lhs

    def unary(self):
        tok = self.peek()
        if tok == ("p", "-") or tok == ("p", "!") or tok == ("p", "~") or tok == ("p", "+"):
            self.eat()
            return Node("u" + tok[1], operands=[self.unary()])
        return self.primary()

    def primary(self):
        tok = self.peek()
        if tok == ("p", "("):
            self.eat()
            e = self.expr()
            self.eat("p", ")")
            return e
        if tok[0] == "num":
            self.eat()
            return Lit(tok[1])
        if tok[0] == "id":
            self.eat()
            name = tok[1]
            tmpl = None
            if self.peek() == ("p", "<") and name.startswith("std::numeric_limits"):
                self.eat()
                tmpl = self.type_()
                self.eat("p", ">")
                # ::max() etc
                if self.peek()[0] == "p" and self.peek()[1] == ":":
                    self.eat()
                    self.eat("p", ":")
                    member = self.eat("id")[1]
                    name = f"{name}<{tmpl}>::{member}"
                elif self.peek()[0] == "id" and self.peek()[1].startswith("::"):
                    name = f"{name}<{tmpl}>{self.eat('id')[1]}"
            if self.peek() == ("p", "("):
                self.eat()
                ops = []
                while self.peek() != ("p", ")"):
                    ops.append(self.expr())
                    if self.peek() == ("p", ","):
                        self.eat()
                self.eat("p", ")")
                return Node(name, template=tmpl, operands=ops)
            return Ref(name)
        raise ParseError(f"unexpected token {tok} at {self.i}")


def parse_xla(text):
    # drop the header lines
    body = "\n".join(ln for ln in text.splitlines() if not ln.lstrip().startswith("#"))
    p = CppParser(body)
    f = p.function()
    if p.peek()[0] != "eof":
        raise ParseError(f"trailing tokens after the function: {p.peek()}")
    return f
