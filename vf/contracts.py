"""E1: recording contracts attached in place to the real functions of the repository.

`attach(owner, name, post, rec)` replaces owner.name by a wrapper that calls the real function,
then evaluates the oracle `post(args, kwargs, result)` which *records* (never raises, never changes
the result).  Because the repository's functions call each other through module globals, in-place
replacement also monitors internal call sites.  Every wrapper counts its evaluations; a site with zero
evaluations makes the run inconclusive (a pre-bound reference would bypass the contract).
"""
import functools
import traceback


class Skip(Exception):
    """raised by an oracle for calls outside the documented domain / symbolic calls"""


_attached = []


def attach(owner, name, post, rec, site=None, pre=None):
    orig = getattr(owner, name)
    site = site or f"{getattr(owner, '__name__', type(owner).__name__)}.{name}"
    state = {"busy": False}

    @functools.wraps(orig)
    def wrapper(*args, **kwargs):
        if state["busy"]:  # do not judge recursive self-calls (lists, negative args...) twice
            return orig(*args, **kwargs)
        state["busy"] = True
        try:
            snap = pre(args, kwargs) if pre is not None else None
            result = orig(*args, **kwargs)
        finally:
            state["busy"] = False
        try:
            if pre is not None:
                post(args, kwargs, result, snap)
            else:
                post(args, kwargs, result)
            rec.count(f"contract:{site}:evaluated")
        except Skip as s:
            rec.count(f"contract:{site}:skipped:{s.args[0] if s.args else 'domain'}")
        except Exception:
            rec.inconc(f"oracle of contract {site} crashed: {traceback.format_exc()[-800:]}")
        return result

    wrapper.__vf_orig__ = orig
    setattr(owner, name, wrapper)
    _attached.append((owner, name, orig))
    return wrapper


def detach_all():
    while _attached:
        owner, name, orig = _attached.pop()
        setattr(owner, name, orig)
