"""C12 — floating-point expansion arithmetic preserves value and normal form.

Contracts on apmath.renormalize (eager and functional; also reached from add/subtract/multiply/square) with exact integer
bookkeeping of sums, an independent overlap predicate, and error bounds for products relative to the leading term.
"""
import warnings
import numpy

from .. import exact, gen, contracts
from ..core import unfl

LEVEL = "exploration"
RULE = ("expansions of length 1..6 in float16/32/64: decreasing-magnitude (documented precondition) overlapping or not, interior zeros, equal magnitudes, cancellation to "
        "zero, alternating signs, subnormal tails, near-overflow heads, and arbitrarily ordered lists (sum clause only, fast=False); x {eager, functional} x {fast, safe} x "
        "size limits; float16 length-2: all finite pairs (thorough). add/subtract exactness when not truncated; multiply/square within ulp(leading term). "
        "distinct_nontrivial = distinct (operation, variant, dtype, length, pattern class, #nonzero outputs) tuples among inputs whose renormalisation changes the list")
ASSUME = ["overlap predicate: non-zero neighbours a, b (|a| >= |b|) are non-overlapping when |b| <= ulp(a) (the ulp-nonoverlapping notion of the cited algorithm; the "
          "repository's stricter utils.overlapping is cross-checked and reported separately)", "vf.exact units arithmetic"]
REQUIRE = ["evaluations", "contract:apmath.renormalize:evaluated", "judged:sum:eager", "judged:sum:functional", "judged:normal-form", "judged:add", "judged:subtract",
           "judged:multiply", "judged:square", "judged:emitted"]


def EXHAUSTIVE(tier):
    if tier == "thorough":
        return "float16: renormalize (functional, safe) on all finite pairs"
    return None


def usum(terms, dt):
    """exact sum of a list of scalars in units of the smallest subnormal (python int)"""
    tot = 0
    for t in terms:
        tot += int(exact.to_units(numpy.array([t], dtype=dt))[0])
    return tot


def ulp_units(x, dt):
    """ulp(x) in units of the smallest subnormal"""
    f = exact.fmt(dt)
    a = abs(int(exact.to_units(numpy.array([x], dtype=dt))[0]))
    if a == 0:
        return 1
    return max(1 << (a.bit_length() - f.p), 1) if a.bit_length() > f.p else 1


def normal_form_ok(lst, dt):
    """decreasing magnitude, non-zero neighbours non-overlapping (|b| <= ulp(a)); zeros are ignored"""
    nz = [v for v in lst if v != 0]
    for a, b in zip(nz, nz[1:]):
        ua = abs(int(exact.to_units(numpy.array([a], dtype=dt))[0]))
        ub = abs(int(exact.to_units(numpy.array([b], dtype=dt))[0]))
        if ub > ua:
            return False, "order"
        if ub > ulp_units(a, dt):
            return False, "overlap"
    return True, None


def satisfies_precondition(seq):
    """'absolute values of the input must be a decreasing sequence, excluding zero items'; equal neighbours (a, -a: cancellation) are accepted -
    the unchanged code meets the two-pass normal form on them"""
    nz = [abs(float(v)) for v in seq if v != 0]
    return all(a >= b for a, b in zip(nz, nz[1:]))


def gen_expansion(rnd, dt, n=None):
    """returns (list of scalars, pattern class)"""
    f = exact.fmt(dt)
    p = f.p
    n = n or rnd.randint(1, 6)
    pat = rnd.choice(["nonoverlap", "overlap", "equal", "cancel", "alternating", "subtail", "bighead", "zeros", "random-order"])
    e0 = rnd.randint(f.emin + 2, f.emax - 3)
    if pat == "bighead":
        e0 = f.emax - rnd.randint(1, 2)
    if pat == "subtail":
        e0 = min(e0, f.emin + 2 * p)
    seq = []
    e = e0
    for k in range(n):
        m = rnd.randint(1 << (p - 1), (1 << p) - 1) if rnd.random() < 0.7 else (1 << (p - 1)) + rnd.choice([0, 1, (1 << (p - 1)) - 1])
        s = rnd.choice([-1, 1])
        if pat == "alternating":
            s = -1 if k % 2 else 1
        ek = max(e, f.emin - p + 2)
        with numpy.errstate(all="ignore"):
            v = dt(s * numpy.ldexp(float(m), ek - p + 1))
        seq.append(v)
        if pat in ("nonoverlap", "alternating", "bighead", "subtail", "zeros"):
            e -= p + rnd.randint(0, 3)
        elif pat == "overlap":
            e -= rnd.randint(1, p)
        elif pat == "equal":
            e -= rnd.choice([0, 0, 1, p])
        else:
            e -= rnd.randint(0, 2 * p)
    if pat == "cancel" and n >= 2:
        seq[1] = -seq[0]
    head_cancel = None
    if rnd.random() < 0.12 and n >= 2 and pat not in ("random-order",):
        # the leading items cancel exactly or up to one ulp: [a, -a, b..], [-a, a+ulp(a), small..]
        head_cancel = rnd.choice(["exact", "ulp"])
    if pat == "zeros" or rnd.random() < 0.15:
        for k in range(n):
            if rnd.random() < 0.3:
                seq[k] = dt(0)
    if pat == "random-order":
        rnd.shuffle(seq)
    else:
        # enforce the documented precondition: decreasing magnitudes (zeros anywhere)
        nz = sorted([v for v in seq if v != 0], key=lambda v: -abs(float(v)))
        if pat != "equal":
            nz2 = []
            for v in nz:
                if not nz2 or abs(float(v)) < abs(float(nz2[-1])):
                    nz2.append(v)
            nz = nz2 + [dt(0)] * (len(nz) - len(nz2))
        it = iter(nz)
        seq = [v if v == 0 else next(it) for v in seq]
    seq = [v for v in seq if numpy.isfinite(v)] or [dt(1)]
    if head_cancel and len(seq) >= 2 and seq[0] != 0 and numpy.isfinite(seq[0]):
        a = seq[0]
        if head_cancel == "exact":
            seq[1] = -a
        else:
            with numpy.errstate(all="ignore"):
                b = numpy.nextafter(a, dt(numpy.inf) if a > 0 else dt(-numpy.inf))
            if numpy.isfinite(b):
                seq[0], seq[1] = b, -a
        pat = pat + "+head-cancel"
    return seq, pat


def install(rec, apmath):
    def post(a, k, result):
        seq = a[1]
        if not seq or not isinstance(seq[0], numpy.floating):
            raise contracts.Skip("symbolic-or-array")
        functional = k.get("functional", a[2] if len(a) > 2 else False)
        fast = k.get("fast", False)
        size = k.get("size")
        dtype_kw = k.get("dtype")
        dt = type(seq[0])
        if not all(isinstance(v, numpy.floating) and numpy.isfinite(v) for v in seq) or not all(isinstance(v, numpy.floating) for v in result):
            raise contracts.Skip("nonfinite-or-array")
        rec.count("evaluations")
        if not all(numpy.isfinite(v) for v in result):
            rec.count("overflow:skipped")
            return
        if fast and not (satisfies_precondition(seq) and normal_form_ok(seq, dt)[0]):
            # fast=True replaces 2Sum by Fast2Sum, whose own domain (|a| >= |b| at every step, C10) is guaranteed for decreasing
            # *non-overlapping* inputs only; the docstring calls fast results on other inputs inaccurate
            raise contracts.Skip("fast-outside-fast2sum-domain")
        cap = None
        if dtype_kw is not None:
            cap = {numpy.float16: 4, numpy.float32: 12, numpy.float64: 40}[dtype_kw]
        if size is not None:
            cap = size if cap is None else min(size, cap)
        truncated_possible = cap is not None and len(result) >= cap and len(seq) > cap
        variant = "functional" if functional else "eager"
        w = dict(dtype=numpy.dtype(dt).name, seq=list(seq), result=list(result), functional=bool(functional), fast=bool(fast), size=size)
        if not truncated_possible:
            rec.count("judged:sum:" + variant)
            if usum(seq, dt) != usum(result, dt):
                rec.violation(f"renormalize-sum:{variant}" + (":fast" if fast else ""), w)
        if functional:
            want_len = len(seq) if cap is None else min(len(seq), cap)
            if len(result) != want_len:
                rec.violation("renormalize-functional-length", w)
            # zeros only at the tail
            seen_zero = False
            for v in result:
                if v == 0:
                    seen_zero = True
                elif seen_zero:
                    rec.violation("renormalize-functional-interior-zero", w)
                    break
        else:
            if len(result) > len(seq) or (cap is not None and len(result) > cap):
                rec.violation("renormalize-eager-length", w)

    contracts.attach(apmath, "renormalize", post, rec, site="apmath.renormalize")


def check_two_pass(rec, apmath, ctx, dt, seq, pat, functional, fast):
    """normal form after at most two passes (inputs satisfying the documented precondition)"""
    with numpy.errstate(all="ignore"):
        r1 = apmath.renormalize(ctx, list(seq), functional=functional, fast=fast)
        r2 = apmath.renormalize(ctx, list(r1), functional=functional, fast=fast) if len(r1) else r1
    if not all(numpy.isfinite(v) for v in list(r1) + list(r2)):
        return
    if not satisfies_precondition(seq):
        return
    rec.count("judged:normal-form")
    ok, why = normal_form_ok(r2, dt)
    if ok:
        # "ordered by decreasing magnitude": a zero item is never followed by a non-zero one
        seen_zero = False
        for v in r2:
            if v == 0:
                seen_zero = True
            elif seen_zero:
                ok, why = False, "zero-before-nonzero"
                break
    if not ok:
        rec.violation(f"normal-form-after-two-passes:{why}:{'functional' if functional else 'eager'}" + (":fast" if fast else ""),
                      dict(dtype=numpy.dtype(dt).name, seq=list(seq), pass1=list(r1), pass2=list(r2), functional=functional, fast=fast, pattern=pat))
    changed = [float(v) for v in r1] != [float(v) for v in seq]
    if changed:
        rec.cls("renormalize", "functional" if functional else "eager", fast, numpy.dtype(dt).name, len(seq), pat, sum(1 for v in r2 if v != 0))


def task_expansions(params, rec):
    import random
    from functional_algorithms import apmath, utils

    install(rec, apmath)
    dt = getattr(numpy, params["dtype"])
    f = exact.fmt(dt)
    ctx = utils.NumpyContext(dt)
    rnd = random.Random(f"c12-{params['seed']}-{params['shard']}-{params['dtype']}")
    for i in range(params["n"]):
        seq, pat = gen_expansion(rnd, dt)
        functional = rnd.random() < 0.5
        fast = rnd.random() < 0.3
        check_two_pass(rec, apmath, ctx, dt, seq, pat, functional, fast)
        # size limits
        if rnd.random() < 0.3 and len(seq) > 1:
            sz = rnd.randint(1, len(seq))
            with numpy.errstate(all="ignore"):
                apmath.renormalize(ctx, list(seq), functional=functional, fast=False, size=sz)
        # a size limit may only change the sum when there is something to truncate: if the unlimited result has k non-zero items, every limit >= k
        # must still return the exact sum (the contract above skips limited calls whose output is full)
        if len(seq) > 1 and rnd.random() < 0.5:
            with numpy.errstate(all="ignore"):
                full = apmath.renormalize(ctx, list(seq), functional=functional, fast=False)
            if all(numpy.isfinite(v) for v in full):
                knz = max(1, sum(1 for v in full if v != 0))
                for sz in range(knz, len(seq) + 1):
                    with numpy.errstate(all="ignore"):
                        rs = apmath.renormalize(ctx, list(seq), functional=functional, fast=False, size=sz)
                    if not all(numpy.isfinite(v) for v in rs):
                        continue
                    rec.count("judged:size-limit-without-truncation")
                    if usum(seq, dt) != usum(rs, dt):
                        rec.violation("renormalize-size-limit-changes-sum-with-nothing-to-truncate:" + ("functional" if functional else "eager"),
                                      dict(dtype=params["dtype"], seq=list(seq), unlimited=list(full), size=sz, result=list(rs), functional=functional, pattern=pat))
                        break
        # add / subtract
        seq2, pat2 = gen_expansion(rnd, dt, n=rnd.randint(1, 3))
        a1 = seq[:3]
        for op, sign in (("add", 1), ("subtract", -1)):
            with numpy.errstate(all="ignore"):
                r = getattr(apmath, op)(ctx, list(a1), list(seq2), functional=functional)
            if not all(numpy.isfinite(v) for v in r):
                continue
            cap = {numpy.float16: 4, numpy.float32: 12, numpy.float64: 40}[dt]
            if len(a1) + len(seq2) > cap and len(r) >= cap:
                rec.count(f"truncated:{op}")
                continue
            rec.count("judged:" + op)
            if usum(a1, dt) + sign * usum(seq2, dt) != usum(r, dt):
                rec.violation(f"{op}-not-exact", dict(dtype=params["dtype"], seq1=list(a1), seq2=list(seq2), result=list(r), functional=functional))
        # size limits on the binary operations: a limit that is at least the number of non-zero items of the unlimited result has nothing to truncate,
        # so the limited result must have the same exact sum as the unlimited one (which, for add / subtract, is the exact result)
        if i % 3 == 0:
            xs_, ys_ = list(a1), list(seq2)
            if f.bits >= 32 and rnd.random() < 0.5:
                # unnormalised operands: leading zeros, head cancellation, overlapping items
                def raw(n):
                    e = rnd.randint(-6, 6)
                    out = []
                    for k in range(n):
                        m = rnd.randint(1 << (f.p - 1), (1 << f.p) - 1) if rnd.random() < 0.8 else (1 << (f.p - 1)) + rnd.choice([0, 1, 3])
                        out.append(dt(rnd.choice([-1, 1]) * numpy.ldexp(float(m), e - f.p + 1)))
                        e -= rnd.choice([0, 0, 1, 2, f.p // 2, f.p])
                    if rnd.random() < 0.4:
                        for k in range(rnd.randint(1, n)):
                            out[k] = dt(0) if rnd.random() < 0.7 else out[k]
                    if rnd.random() < 0.3 and n >= 2 and out[0] != 0:
                        out[1] = -out[0]
                    return out
                xs_, ys_ = raw(rnd.randint(1, 4)), raw(rnd.randint(1, 3))
            ops = ["add", "subtract"] + (["multiply", "square"] if f.bits >= 32 else [])
            for op in ops:
                def call(sz):
                    kw = dict(functional=functional) if sz is None else dict(functional=functional, size=sz)
                    with numpy.errstate(all="ignore"):
                        return apmath.square(ctx, list(xs_), **kw) if op == "square" else getattr(apmath, op)(ctx, list(xs_), list(ys_), **kw)
                try:
                    full = call(None)
                except Exception as e:
                    rec.violation(f"{op}-exception", dict(dtype=params["dtype"], x=list(xs_), y=list(ys_), exc=f"{type(e).__name__}: {e}"[:200]))
                    continue
                if not all(numpy.isfinite(v) for v in full):
                    continue
                cap = {numpy.float16: 4, numpy.float32: 12, numpy.float64: 40}[dt]
                if len(full) >= cap:
                    continue
                knz = max(1, sum(1 for v in full if v != 0))
                nmax = {"add": len(xs_) + len(ys_), "subtract": len(xs_) + len(ys_), "multiply": len(xs_) * len(ys_), "square": len(xs_) ** 2}[op]
                for sz in range(knz, max(knz, min(nmax, cap - 1)) + 1):
                    try:
                        rs = call(sz)
                    except Exception as e:
                        rec.violation(f"{op}-exception", dict(dtype=params["dtype"], x=list(xs_), y=list(ys_), size=sz, exc=f"{type(e).__name__}: {e}"[:200]))
                        break
                    if not all(numpy.isfinite(v) for v in rs):
                        continue
                    rec.count("judged:size-limit-without-truncation")
                    if usum(full, dt) != usum(rs, dt) or len(rs) > sz:
                        rec.violation(f"{op}-size-limit-changes-result-with-nothing-to-truncate", dict(dtype=params["dtype"], x=list(xs_), y=None if op == "square" else list(ys_), unlimited=list(full),
                                                                                                     size=sz, result=list(rs), functional=functional))
                        break
        # renormalisation with the overflow guard on.  "Absent overflow" includes 2Sum's intermediate z = s - x (e.g. -12528 + 65504 in float16: the sum
        # 52992 is finite, z = 65520 is not, and the guard then drops the error term by design), so the guard is only driven where no intermediate can
        # overflow: items of one sign whose total rounds to a finite value (a head at exactly +-largest with a small tail), or lists far below largest.
        if i % 4 == 1:
            big = dt(numpy.finfo(dt).max)
            sg = rnd.choice([-1, 1])
            tail = []
            for k in range(rnd.randint(1, 4)):
                m = rnd.randint(1 << (f.p - 1), (1 << f.p) - 1)
                tail.append(dt(sg * numpy.ldexp(float(m), rnd.randint(f.emin, f.emax - f.p - 4) - f.p + 1)))
            sq = list(tail)
            sq.insert(rnd.randrange(len(sq) + 1), dt(sg) * big)
            if rnd.random() < 0.3:
                sq.insert(rnd.randrange(len(sq) + 1), dt(0))
            with numpy.errstate(all="ignore"):
                apmath.renormalize(ctx, list(sq), functional=functional, fast=False, fix_overflow=True)  # judged by the renormalize contract (sum clause)
                rec.count("judged:fix_overflow-calls")
                if sum(abs(float(v)) for v in seq) < float(big) / 8:
                    apmath.renormalize(ctx, list(seq), functional=functional, fast=False, fix_overflow=True)
                    rec.count("judged:fix_overflow-calls")
        # multiply / square: |result - exact| < ulp(leading term); operands kept away from under/overflow so that every partial product is exact
        if f.bits >= 32 or rnd.random() < 0.2:
            n1, n2 = (rnd.randint(1, 3), rnd.randint(1, 3)) if f.bits >= 32 else (1, 1)
            lo, hi = (f.emin + 3 * f.p) // 2 + 2 * f.p, f.emax // 2 - 2
            if lo < hi:
                def mid_expansion(n):
                    e = rnd.randint(lo, hi)
                    out = []
                    for k in range(n):
                        m = rnd.randint(1 << (f.p - 1), (1 << f.p) - 1)
                        out.append(dt(rnd.choice([-1, 1]) * numpy.ldexp(float(m), e - f.p + 1)))
                        e -= f.p + rnd.randint(0, 2)
                    return out

                x, y = mid_expansion(n1), mid_expansion(n2)
                for op in ("multiply", "square"):
                    with numpy.errstate(all="ignore"):
                        r = apmath.multiply(ctx, list(x), list(y), functional=functional) if op == "multiply" else apmath.square(ctx, list(x), functional=functional)
                    if not r or not all(numpy.isfinite(v) for v in r):
                        continue
                    k = exact.units_exp(dt)
                    ex = usum(x, dt) * (usum(y, dt) if op == "multiply" else usum(x, dt))  # units 2^(2k)
                    got = usum(r, dt) << (-k)
                    lead = max(r, key=lambda v: abs(float(v)))
                    bound = ulp_units(lead, dt) << (-k)
                    rec.count("judged:" + op)
                    if abs(got - ex) >= bound:
                        rec.violation(f"{op}-error-bound", dict(dtype=params["dtype"], x=list(x), y=list(y) if op == "multiply" else None, result=list(r), functional=functional,
                                                                 error_in_ulps_of_leading=float(abs(got - ex) / bound)))
                    rec.cls(op, functional, params["dtype"], n1, n2 if op == "multiply" else 0)
        # the same bound on lists that are not normalised (overlapping, mixed signs, equal magnitudes, zeros): products of such lists are what add /
        # multiply chains feed each other before a final renormalisation; float32/float64 only (float16 partial products underflow)
        if f.bits >= 32 and i % 2 == 0:
            def raw_list(n):
                e = rnd.randint(-6, 6)
                out = []
                for k in range(n):
                    m = rnd.randint(1 << (f.p - 1), (1 << f.p) - 1) if rnd.random() < 0.8 else (1 << (f.p - 1)) + rnd.choice([0, 1, 3])
                    out.append(dt(rnd.choice([-1, 1]) * numpy.ldexp(float(m), e - f.p + 1)))
                    e -= rnd.choice([0, 0, 1, 2, f.p // 2, f.p])
                if rnd.random() < 0.2:
                    out[rnd.randrange(n)] = dt(0)
                return out

            x, y = raw_list(rnd.randint(1, 3)), raw_list(rnd.randint(1, 3))
            for op in ("multiply", "square"):
                with numpy.errstate(all="ignore"):
                    r = apmath.multiply(ctx, list(x), list(y), functional=functional) if op == "multiply" else apmath.square(ctx, list(x), functional=functional)
                if not r or not all(numpy.isfinite(v) for v in r):
                    continue
                k = exact.units_exp(dt)
                ex = usum(x, dt) * (usum(y, dt) if op == "multiply" else usum(x, dt))
                got = usum(r, dt) << (-k)
                lead = max(r, key=lambda v: abs(float(v)))
                bound = ulp_units(lead, dt) << (-k)
                rec.count("judged:" + op + ":unnormalised")
                if abs(got - ex) >= bound:
                    rec.violation(f"{op}-error-bound:unnormalised-operands", dict(dtype=params["dtype"], x=list(x), y=list(y) if op == "multiply" else None, result=list(r),
                                                                                   functional=functional, error_in_ulps_of_leading=float(abs(got - ex) / bound)))
        # the package's own overlap predicate (used to state / test the normal form): symmetric, and equal to |x| >= ulp(y) and |y| >= ulp(x) with ulp
        # the spacing of the float lattice, whichever argument is larger
        if len(seq) >= 2 and i % 2 == 0:
            from functional_algorithms import utils as fa_utils

            pairs = [(seq[j], seq[j + 1]) for j in range(len(seq) - 1)] + [(seq[-1], seq[0])]
            for a_, b_ in pairs:
                for x_, y_ in ((a_, b_), (b_, a_), (a_, -b_)):
                    rec.count("judged:overlapping-predicate")
                    with numpy.errstate(all="ignore"):
                        got = bool(fa_utils.overlapping(x_, y_))
                    if x_ == y_:
                        want = True
                    elif x_ == 0 or y_ == 0:
                        want = False
                    else:
                        ax_ = abs(int(exact.to_units(numpy.array([x_], dtype=dt))[0]))
                        ay_ = abs(int(exact.to_units(numpy.array([y_], dtype=dt))[0]))
                        want = ax_ >= ulp_units(y_, dt) and ay_ >= ulp_units(x_, dt)
                    if got != want:
                        rec.violation("utils.overlapping", dict(dtype=params["dtype"], x=x_, y=y_, got=got, expected=want))
                        break
        if i < 2:
            rec.sample(dict(dtype=params["dtype"], seq=list(seq), pattern=pat, functional=functional, fast=fast))
    contracts.detach_all()


def task_emitted(params, rec):
    """the functional variant as it is actually emitted: trace renormalize -> NumPy target -> run on arrays; judged exactly"""
    import random
    import functional_algorithms as fa
    from functional_algorithms import apmath, rewrite, targets

    dt = getattr(numpy, params["dtype"])
    rnd = random.Random(f"c12e-{params['seed']}-{params['dtype']}")
    for n in (2, 3, 4):
        def fn(ctx, *xs):
            return apmath.renormalize(ctx, list(xs), functional=True, fast=False)

        # build a traced function with n positional float arguments
        src = "def renorm%d(ctx, %s):\n    return apmath.renormalize(ctx, [%s], functional=True, fast=False)\n" % (n, ", ".join(f"x{i}: float" for i in range(n)), ", ".join(f"x{i}" for i in range(n)))
        ns = dict(apmath=apmath)
        exec(src, ns)
        ctx = fa.Context(paths=[fa.apmath_algorithms] if hasattr(fa, "apmath_algorithms") else [])
        try:
            g = ctx.trace(ns[f"renorm{n}"], *([dt] * n)).rewrite(targets.numpy, rewrite)
            f = targets.numpy.as_function(g, debug=1, force_cast_arguments=False)
        except Exception as e:
            rec.count("emitted:refused:" + type(e).__name__)
            continue
        m = params["n"]
        cols = [[] for _ in range(n)]
        for _ in range(m):
            seq, pat = gen_expansion(rnd, dt, n=n)
            seq = (seq + [dt(0)] * n)[:n]
            for c, v in zip(cols, seq):
                c.append(v)
        arrs = [numpy.array(c, dtype=dt) for c in cols]
        with numpy.errstate(all="ignore"):
            out = f(*arrs)
        out = [numpy.asarray(o) for o in out]
        fin = numpy.ones(m, dtype=bool)
        for o in out:
            fin &= numpy.isfinite(o)
        tin = sum(exact.to_units(a) for a in arrs)
        tout = sum(exact.to_units(numpy.where(fin, o, dt(0)).astype(dt)) for o in out)
        bad = fin & (tin != tout).astype(bool)
        rec.count("evaluations", m)
        rec.count("judged:emitted", int(fin.sum()))
        if bad.any():
            i = int(numpy.flatnonzero(bad)[0])
            rec.violation("emitted-functional-renormalize-sum", dict(dtype=params["dtype"], seq=[a[i] for a in arrs], result=[o[i] for o in out]), n=int(bad.sum()))
        if len(out) != n:
            rec.violation("emitted-functional-length", dict(dtype=params["dtype"], n=n, got=len(out)))


def task_emitted_binary(params, rec):
    """traced functional add / subtract (3 + 2 words, 2 + 2 words) emitted for NumPy: exact like the eager form whenever the type's own size cap is
    not reached (the traced dispatch builds one result per dtype and selects between them)"""
    import random
    import functional_algorithms as fa
    from functional_algorithms import apmath, rewrite, targets

    dt = getattr(numpy, params["dtype"])
    f_ = exact.fmt(dt)
    cap = {numpy.float16: 4, numpy.float32: 12, numpy.float64: 40}[dt]
    rnd = random.Random(f"c12eb-{params['seed']}-{params['dtype']}")
    for op, sign in (("add", 1), ("subtract", -1)):
        for n1, n2, wrap in ((3, 2, False), (3, 2, True), (2, 2, True), (1, 3, False)):
            if n1 + n2 > cap:
                continue
            names = [f"a{i}" for i in range(n1)] + [f"b{i}" for i in range(n2)]
            # the traced result is a selection between per-dtype lists; user code passes it on as it is or rebuilds a list from it (ctx.list iterates it)
            call = "apmath.%s(ctx, [%s], [%s], functional=True)" % (op, ", ".join(names[:n1]), ", ".join(names[n1:]))
            src = "def tr(ctx, %s):\n    return %s\n" % (", ".join(names), f"ctx.list({call})" if wrap else call)
            ns = dict(apmath=apmath)
            exec(src, ns)
            ctx = fa.Context(paths=[fa.algorithms])
            try:
                with warnings.catch_warnings():
                    warnings.simplefilter("ignore")
                    g = ctx.trace(ns["tr"], *([dt] * (n1 + n2))).rewrite(targets.numpy, rewrite)
                    fn = targets.numpy.as_function(g, debug=0)
            except Exception as e:
                rec.count("emitted-binary:refused:" + type(e).__name__)
                continue
            for _ in range(params["n"]):
                x, _p = gen_expansion(rnd, dt, n=n1)
                y, _p = gen_expansion(rnd, dt, n=n2)
                x, y = (x + [dt(0)] * n1)[:n1], (y + [dt(0)] * n2)[:n2]
                with warnings.catch_warnings():
                    warnings.simplefilter("ignore")
                    with numpy.errstate(all="ignore"):
                        try:
                            r = [dt(v) for v in fn(*x, *y)]
                        except Exception as e:
                            rec.violation("emitted-binary-exception", dict(dtype=params["dtype"], op=op, x=list(x), y=list(y), exc=f"{type(e).__name__}: {e}"[:200]))
                            break
                rec.count("evaluations")
                if not all(numpy.isfinite(v) for v in r):
                    continue
                rec.count("judged:emitted-binary")
                if usum(x, dt) + sign * usum(y, dt) != usum(r, dt):
                    rec.violation(f"emitted-functional-{op}-not-exact", dict(dtype=params["dtype"], x=list(x), y=list(y), result=list(r)))
                    break


def task_f16_pairs(params, rec):
    """float16 length-2, functional safe renormalize on all finite pairs (vectorised through NumpyContext)"""
    from functional_algorithms import apmath, utils

    dt = numpy.float16
    ctx = utils.NumpyContext(dt)
    allv = exact.all_values(dt)
    finv = allv[numpy.isfinite(allv)]
    xs = finv[params["start"]:: params["step"]]
    B = 128
    for i in range(0, xs.size, B):
        xb = xs[i: i + B]
        X = numpy.repeat(xb, finv.size)
        Y = numpy.tile(finv, xb.size)
        with numpy.errstate(all="ignore"):
            r = apmath.renormalize(ctx, [X, Y], functional=True, fast=False)
        r0, r1 = numpy.asarray(r[0]), numpy.asarray(r[1])
        fin = numpy.isfinite(r0) & numpy.isfinite(r1)
        ex = X.astype(numpy.float64) + Y.astype(numpy.float64)
        got = numpy.where(fin, r0, 0).astype(numpy.float64) + numpy.where(fin, r1, 0).astype(numpy.float64)
        bad = fin & (got != ex)
        # normal form: |r1| <= ulp(r0) and ordered, when r0 != 0
        rec.count("evaluations", X.size)
        rec.count("judged:sum:functional", int(fin.sum()))
        if bad.any():
            j = int(numpy.flatnonzero(bad)[0])
            rec.violation("renormalize-sum:functional:f16-pairs", dict(dtype="float16", seq=[X[j], Y[j]], result=[r0[j], r1[j]]), n=int(bad.sum()))
        zt = fin & (r0 == 0) & (r1 != 0)
        if zt.any():
            j = int(numpy.flatnonzero(zt)[0])
            rec.violation("renormalize-functional-interior-zero", dict(dtype="float16", seq=[X[j], Y[j]], result=[r0[j], r1[j]]), n=int(zt.sum()))
    rec.sample(dict(kind="float16 pairs", x_first=xs[0], count=int(xs.size * finv.size)))


TASKS = {"expansions": task_expansions, "emitted": task_emitted, "emitted_binary": task_emitted_binary, "f16_pairs": task_f16_pairs}
SHARD_TIMEOUT = {"quick": 1500, "thorough": 7200}


def plan(tier, seed):
    t = []
    n, nsh = (2500, 4) if tier == "quick" else (120000, 5)
    for dtn in ("float16", "float32", "float64"):
        for s in range(nsh):
            t.append(("expansions", dict(dtype=dtn, seed=seed, shard=s, n=n)))
        t.append(("emitted", dict(dtype=dtn, seed=seed, n=3000 if tier == "quick" else 200000)))
        t.append(("emitted_binary", dict(dtype=dtn, seed=seed, n=150 if tier == "quick" else 6000)))
    if tier == "quick":
        t.append(("f16_pairs", dict(start=seed % 997, step=997)))
    else:
        for s in range(32):
            t.append(("f16_pairs", dict(start=s, step=32)))
    return t


def replay(site, witness, rec):
    from functional_algorithms import apmath, utils

    install(rec, apmath)
    dt = getattr(numpy, witness["dtype"])
    ctx = utils.NumpyContext(dt)
    seq = [unfl(v, dt) for v in witness.get("seq", witness.get("seq1", []))]
    if seq:
        for functional in (False, True):
            check_two_pass(rec, apmath, ctx, dt, seq, "replay", functional, bool(witness.get("fast", False)))
    contracts.detach_all()
