"""C19 — sample generators cover exactly the requested range, ULP-uniformly.

Recording contracts on utils.real_samples (fires on the internal calls of the product generators and of the recursive
mixed-sign path too) + array laws on the lattice; product generators are compared with the Cartesian product of the
one-dimensional calls with the same parameters.
"""
import numpy

from .. import exact, gen, contracts
from ..core import unfl

LEVEL = "exploration"
RULE = ("parameter fuzzer over size in {6..12, 50, 1000, 1e5 (1e6 thorough)}, 3 dtypes, bounds from hostile classes (same sign, straddling zero, +-0, "
        "subnormal, adjacent floats, equal, more samples than representable values, one-sided), all include_*/nonnegative/unique flags; pair/triple/complex "
        "generators against the Cartesian product of 1-D calls. distinct_nontrivial = distinct (dtype, bounds class, size class, flag tuple) tuples")
ASSUME = ["numpy bit views define the lattice (vf.exact ordinals)"]
REQUIRE = ["evaluations", "contract:utils.real_samples:evaluated", "path:default", "path:same-sign", "path:mixed-sign", "products:judged", "size:large"]


def effective_bounds(dt, kw):
    """the documented effective bounds of a call (None when the default path is used)"""
    fi = numpy.finfo(dt)
    mn, mx = kw.get("min_value"), kw.get("max_value")
    sub = kw.get("include_subnormal", False)
    min_pos = dt(fi.smallest_subnormal if sub else fi.smallest_normal)
    user = mn is not None or mx is not None
    if mn is None:
        mn = -dt(fi.max) if (mx is not None and mx <= 0) else min_pos  # a zero upper bound alone selects the negative half-line (as min_value=0 alone selects [0, largest])
    if mx is None:
        mx = -min_pos if (mn is not None and mn < 0) else dt(fi.max)
    mn, mx = dt(mn), dt(mx)
    if not sub:
        if mn != 0 and abs(mn) < min_pos:
            mn = -min_pos if mn < 0 else dt(0)
        if mx != 0 and abs(mx) < min_pos:
            mx = -dt(0) if mx < 0 else min_pos
    return user, mn, mx


def judge_real(rec, kw, r, exc=None):
    dt = kw["dtype"]
    f = exact.fmt(dt)
    fi = numpy.finfo(dt)
    size = kw.get("size", 10)
    sub = kw.get("include_subnormal", False)
    user, lo, hi = effective_bounds(dt, kw)
    wit = {k: (v if not isinstance(v, type) else v.__name__) for k, v in kw.items()}
    wit["dtype"] = numpy.dtype(dt).name
    mixed = user and lo < 0 < hi
    zero_bound = user and (lo == 0 or hi == 0)
    pathname = "default" if not user else ("mixed-sign" if mixed else "same-sign")
    wit["path"] = pathname
    wit["zero_bound"] = bool(zero_bound)
    rec.count("path:" + pathname)
    if size >= 100000:
        rec.count("size:large")
    if size < 6:
        raise contracts.Skip("size<6")
    if exc is not None:
        if user and lo > hi and isinstance(exc, ValueError):
            raise contracts.Skip("min>max refused")
        rec.violation("real_samples-exception", dict(wit, exc=f"{type(exc).__name__}: {exc}"[:200]))
        return
    why = []
    if not isinstance(r, numpy.ndarray) or r.dtype != numpy.dtype(dt) or r.ndim != 1:
        rec.violation("real_samples-dtype", dict(wit, got=str(getattr(r, "dtype", type(r)))))
        return
    nan_ok = (not user) and kw.get("include_nan", False)
    isn = numpy.isnan(r)
    if isn.any() and not nan_ok:
        why.append("nan")
    if nan_ok and not isn.any():
        why.append("nan-missing")
    v = r[~isn]
    o = exact.ordinal_arr(v)
    d = numpy.diff(o)
    if kw.get("unique", True):
        if not (d > 0).all():
            why.append("not-strictly-increasing")
    else:
        # repeated values are allowed by design ("for predictability of the number of samples") and the documented behaviour
        # does not promise an order then: the remaining laws are judged on the sorted values
        v = numpy.sort(v)
    inf_ok = (not user) and kw.get("include_infinity", True)
    finite = v[numpy.isfinite(v)]
    if user:
        if lo == hi:
            if not (v.size == 1 and v[0] == lo):
                why.append("degenerate-bounds")
        else:
            if v.size == 0 or v[0] != lo:
                why.append("lower-bound-missing")
            if v.size == 0 or v[-1] != hi:
                why.append("upper-bound-missing")
            if v.size and (v.min() < lo or v.max() > hi):
                why.append("out-of-bounds")
            if numpy.isinf(v).any():
                why.append("infinity")
        if mixed and kw.get("include_zero", True) and not (v == 0).any():
            why.append("zero-missing")
    else:
        nonneg = kw.get("nonnegative", False)
        if finite.size == 0 or finite[-1] != dt(fi.max):
            why.append("max-missing")
        if not nonneg and (finite.size == 0 or finite[0] != -dt(fi.max)):
            why.append("min-missing")
        if nonneg and (finite < 0).any():
            why.append("negative")
        if inf_ok:
            if not (v == dt(numpy.inf)).any() or (not nonneg and not (v == -dt(numpy.inf)).any()):
                why.append("infinity-missing")
        if kw.get("include_zero", True) and not (v == 0).any():
            why.append("zero-missing")
        huge = numpy.nextafter(dt(fi.max), dt(0))
        num = size // 2 if not nonneg else size
        if inf_ok:
            num -= 1
        if kw.get("include_huge", True) and num > 3 and not (v == huge).any():
            why.append("huge-missing")
        minpos = dt(fi.smallest_subnormal if sub else fi.smallest_normal)
        pos = finite[finite > 0]
        if pos.size == 0 or pos[0] != minpos:
            why.append("smallest-positive-missing")
    if not sub and ((finite != 0) & (numpy.abs(finite) < fi.smallest_normal)).any():
        why.append("subnormal")
    # ULP-uniform spacing of consecutive finite same-sign samples, special values removed
    fo = exact.ordinal_arr(finite)
    for sign in (1, -1):
        part = numpy.sort(numpy.abs(fo[(fo * sign) > 0]))
        if not user and kw.get("include_huge", True) and part.size > 3:
            part = part[:-2]  # huge replaced the second largest sample: both gaps next to it are exempt
        if not sub and user:
            # samples that fell into the subnormal range were moved to zero: spacing is judged on the normal part
            part = part[part >= (1 << (f.p - 1))]
        if part.size >= 3:
            g = numpy.diff(part)
            if int(g.max()) - int(g.min()) > 1:
                why.append("not-ulp-uniform")
                wit["gap_min_max"] = [int(g.min()), int(g.max())]
                break
    rec.count("evaluations")
    if why:
        rec.violation("real_samples-" + "+".join(sorted(set(why))), dict(wit, head=list(r[:4]), tail=list(r[-4:]), n=int(r.size)))
    bclass = pathname + ("-zero" if zero_bound else "") + ("-sub" if (user and (0 < abs(float(lo)) < fi.smallest_normal or 0 < abs(float(hi)) < fi.smallest_normal)) else "")
    flags = tuple(bool(kw.get(k, dflt)) for k, dflt in (("include_infinity", True), ("include_zero", True), ("include_subnormal", False), ("include_nan", False), ("include_huge", True), ("nonnegative", False), ("unique", True)))
    rec.cls(numpy.dtype(dt).name, bclass, "s%d" % len(str(size)), flags)


ARGNAMES = ["size", "dtype", "include_infinity", "include_zero", "include_subnormal", "include_nan", "include_huge", "nonnegative", "min_value", "max_value", "unique"]


def install(rec, utils):
    def pre(a, k):
        return None

    def post(a, k, r, snap=None):
        kw = dict(zip(ARGNAMES, a))
        kw.update(k)
        kw.setdefault("dtype", numpy.float32)
        if isinstance(kw["dtype"], str):
            kw["dtype"] = getattr(numpy, kw["dtype"])
        kw.setdefault("size", 10)
        if STATE.get("depth_skip"):
            raise contracts.Skip("inner")
        judge_real(rec, kw, r)

    contracts.attach(utils, "real_samples", post, rec, site="utils.real_samples")


STATE = {}


def call_real(rec, utils, kw):
    """outer call: exceptions are judged here (a contract's post never sees them)"""
    try:
        return utils.real_samples(**kw)
    except Exception as e:
        try:
            judge_real(rec, dict(kw), None, exc=e)
        except contracts.Skip:
            pass
        return None


def rand_bound(rng, dt):
    f = exact.fmt(dt)
    fi = numpy.finfo(dt)
    c = rng.random()
    if c < 0.25:
        return dt(rng.choice([0.0, -0.0, float(fi.smallest_subnormal), -float(fi.smallest_subnormal), float(fi.smallest_normal), -float(fi.smallest_normal),
                              float(fi.max), -float(fi.max), 1.0, -1.0, float(fi.smallest_normal) / 2, -float(fi.smallest_normal) / 2]))
    if c < 0.5:
        return gen.random_bits(rng, dt, 1, inf=False)[0]
    e = rng.uniform(f.emin - f.p, f.emax)
    with numpy.errstate(all="ignore"):
        return dt(rng.choice([-1, 1]) * 2.0**e)


def rand_params(rng, tier):
    dt = [numpy.float16, numpy.float32, numpy.float64][int(rng.integers(0, 3))]
    f = exact.fmt(dt)
    sizes = [6, 7, 8, 9, 10, 11, 12, 13, 50, 51, 1000]
    size = int(sizes[int(rng.integers(0, len(sizes)))])
    kw = dict(size=size, dtype=dt)
    for k_, p_ in (("include_infinity", 0.5), ("include_zero", 0.5), ("include_subnormal", 0.5), ("include_nan", 0.3), ("include_huge", 0.5), ("nonnegative", 0.3), ("unique", 0.8)):
        if rng.random() < 0.7:
            kw[k_] = bool(rng.random() < p_)
    mode = rng.random()
    if mode < 0.3:
        pass  # default path
    elif mode < 0.4:
        kw["min_value" if rng.random() < 0.5 else "max_value"] = rand_bound(rng, dt)
    else:
        a, b = rand_bound(rng, dt), rand_bound(rng, dt)
        r_ = rng.random()
        if r_ < 0.35:
            b = dt(abs(b)) if a >= 0 else -dt(abs(b))  # same sign
        elif r_ < 0.45:
            # adjacent / near floats: more samples than representable values
            b = exact.from_ordinal(dt, int(numpy.clip(exact.ordinal(a) + int(rng.integers(1, 40)), -(f.inf_bits - 1), f.inf_bits - 1)))
        if a > b:
            a, b = b, a
        kw["min_value"], kw["max_value"] = a, b
    return kw


def task_fuzz(params, rec):
    from functional_algorithms import utils

    install(rec, utils)
    rng = gen.rng_for(params["seed"], 19, params["shard"])
    for i in range(params["n"]):
        kw = rand_params(rng, params["tier"])
        call_real(rec, utils, kw)
        if i < 3:
            rec.sample({k: (v.__name__ if isinstance(v, type) else v) for k, v in kw.items()})
    contracts.detach_all()


def task_large(params, rec):
    from functional_algorithms import utils

    install(rec, utils)
    rng = gen.rng_for(params["seed"], 190, params["shard"])
    for size in params["sizes"]:
        for dt in (numpy.float32, numpy.float64):
            fi = numpy.finfo(dt)
            for kw in (dict(), dict(include_subnormal=True), dict(nonnegative=True, include_infinity=False), dict(min_value=dt(1e-3), max_value=dt(1e3)),
                       dict(min_value=-dt(fi.max), max_value=-dt(fi.smallest_normal)), dict(min_value=dt(1), max_value=numpy.nextafter(dt(1), dt(2), dtype=dt) + dt(1e-3))):
                call_real(rec, utils, dict(kw, size=size, dtype=dt))
    contracts.detach_all()


def task_products(params, rec):
    from functional_algorithms import utils

    rng = gen.rng_for(params["seed"], 191, params["shard"])

    def flags():
        kw = {}
        for k_ in ("include_infinity", "include_zero", "include_subnormal", "include_nan", "include_huge", "nonnegative"):
            if rng.random() < 0.6:
                kw[k_] = bool(rng.random() < 0.5)
        return kw

    def eqv(a, b):
        return a.shape == b.shape and a.dtype == b.dtype and bool(((a == b) | (numpy.isnan(a) & numpy.isnan(b))).all())

    for i in range(params["n"]):
        dt = [numpy.float32, numpy.float64, numpy.float16][int(rng.integers(0, 3))]
        kw = flags()
        sizes = tuple(int(rng.integers(6, 14)) for _ in range(3))
        def draw_bound():
            if rng.random() < 0.5:
                return None
            lo, hi = sorted([float(2.0 ** rng.uniform(-8, 8)), float(2.0 ** rng.uniform(-8, 8))])
            r_ = rng.random()
            if r_ < 0.25:
                lo = -lo  # a range across zero
            elif r_ < 0.4:
                # a bound that is zero: as a float of the dtype, a Python float, a Python int, or negative zero on the upper side
                z = [dt(0), 0.0, 0][int(rng.integers(0, 3))]
                if rng.random() < 0.5:
                    return (z, dt(hi))
                return (dt(-hi), [dt(0), -0.0, 0][int(rng.integers(0, 3))])
            return (dt(lo), dt(hi)) if dt(lo) != dt(hi) else None

        # one bound per dimension (the generators take scalars - one bound for every dimension - or tuples); 4 = the two parts of two complex operands
        if rng.random() < 0.35:
            b_ = draw_bound()
            B = [b_] * 4
        else:
            B = [draw_bound() for _ in range(4)]
        bnd = B[0]
        same = all(b_ is B[0] for b_ in B)

        def bkw(b_):
            return dict(min_value=b_[0], max_value=b_[1]) if b_ else {}

        def tup(bs, names):
            """keyword arguments for several dimensions: scalars when all dimensions share one bound, tuples otherwise"""
            if all(b_ is None for b_ in bs):
                return {}
            if all(b_ is bs[0] for b_ in bs) and rng.random() < 0.5:
                return {names[0]: bs[0][0], names[1]: bs[0][1]}
            return {names[0]: tuple(b_[0] if b_ else None for b_ in bs), names[1]: tuple(b_[1] if b_ else None for b_ in bs)}

        try:
            s1, s2, s3 = (utils.real_samples(sizes[j], dtype=dt, **kw, **bkw(B[j])) for j in range(3))
        except Exception:
            continue
        rec.count("evaluations", 3)
        rec.count("products:judged", 3)
        if not same:
            rec.count("products:per-dimension-bounds")
        wit = dict(dtype=numpy.dtype(dt).name, sizes=sizes, flags=kw, bounds=[list(b_) if b_ else None for b_ in B])
        # pair
        try:
            p1, p2 = utils.real_pair_samples(sizes[:2], dtype=dt, **kw, **tup(B[:2], ("min_value", "max_value")))
            e1 = numpy.tile(s1, s2.size)
            e2 = numpy.repeat(s2, s1.size)
            if not (eqv(p1, e1) and eqv(p2, e2)):
                rec.violation("real_pair_samples-product", wit)
            t1, t2, t3 = utils.real_triple_samples(sizes, dtype=dt, **kw, **tup(B[:3], ("min_value", "max_value")))
            g1, g2, g3 = numpy.meshgrid(s1, s2, s3, indexing="ij")
            if not (eqv(t1, g1.ravel()) and eqv(t2, g2.ravel()) and eqv(t3, g3.ravel())):
                rec.violation("real_triple_samples-product", wit)
            if dt is not numpy.float16:
                cdt = {numpy.float32: numpy.complex64, numpy.float64: numpy.complex128}[dt]

                def ckw(br, bi):
                    d = {}
                    if br:
                        d.update(min_real_value=br[0], max_real_value=br[1])
                    if bi:
                        d.update(min_imag_value=bi[0], max_imag_value=bi[1])
                    return d

                z = utils.complex_samples(sizes[:2], dtype=dt, **kw, **ckw(B[0], B[1]))
                ok = z.dtype == numpy.dtype(cdt) and z.shape == (s2.size, s1.size)
                if ok:
                    re_e = numpy.broadcast_to(s1[None, :], z.shape)
                    im_e = numpy.broadcast_to(s2[:, None], z.shape)
                    ok = eqv(numpy.ascontiguousarray(z.real), numpy.ascontiguousarray(re_e)) and eqv(numpy.ascontiguousarray(z.imag), numpy.ascontiguousarray(im_e))
                if not ok:
                    rec.violation("complex_samples-product", wit)
                if i % 3 == 0:
                    sz = ((6, 7), (7, 6))
                    pk = dict(tup([B[0], B[2]], ("min_real_value", "max_real_value")), **tup([B[1], B[3]], ("min_imag_value", "max_imag_value")))
                    zz1, zz2 = utils.complex_pair_samples(sz, dtype=dt, **kw, **pk)
                    a = utils.complex_samples(sz[0], dtype=dt, **kw, **ckw(B[0], B[1]))
                    b = utils.complex_samples(sz[1], dtype=dt, **kw, **ckw(B[2], B[3]))
                    ok = zz1.shape == zz2.shape == (a.shape[0] * b.shape[0], a.shape[1] * b.shape[1])
                    if ok:
                        # every (a-element, b-element) pair appears exactly once
                        key = lambda c: (c.real.tobytes(), c.imag.tobytes())  # noqa
                        pairs = set(zip(map(key, zz1.ravel()), map(key, zz2.ravel())))
                        want = set((key(x), key(y)) for x in a.ravel() for y in b.ravel())
                        ok = pairs == want and zz1.size == a.size * b.size
                    rec.count("products:complex-pair-judged")
                    if not ok:
                        rec.violation("complex_pair_samples-product", dict(wit, keywords={k_: [None if v_ is None else float(v_) for v_ in v] if isinstance(v, tuple) else float(v) for k_, v in pk.items()}))
        except Exception as e:
            rec.violation("product-exception", dict(wit, exc=f"{type(e).__name__}: {e}"[:200]))
        rec.cls("product", numpy.dtype(dt).name, tuple(sorted(kw.items())), bnd is not None)
    rec.sample(dict(kind="products", last=dict(dtype=numpy.dtype(dt).name, sizes=sizes, flags=kw)))


TASKS = {"fuzz": task_fuzz, "large": task_large, "products": task_products}


def plan(tier, seed):
    n, nsh = (4000, 14) if tier == "quick" else (500000, 14)
    t = [("fuzz", dict(seed=seed, shard=s, n=n, tier=tier)) for s in range(nsh)]
    t.append(("large", dict(seed=seed, shard=0, sizes=[100000, 300000] if tier == "quick" else [100000, 300000, 1000000])))
    t += [("products", dict(seed=seed, shard=s, n=150 if tier == "quick" else 12000)) for s in range(4 if tier == "quick" else 8)]
    return t


def replay(site, witness, rec):
    from functional_algorithms import utils

    install(rec, utils)
    kw = {}
    for k, v in witness.items():
        if k in ARGNAMES:
            kw[k] = v
    dt = getattr(numpy, witness["dtype"])
    kw["dtype"] = dt
    for k in ("min_value", "max_value"):
        if k in kw and kw[k] is not None:
            kw[k] = unfl(kw[k], dt)
    call_real(rec, utils, kw)
    contracts.detach_all()
