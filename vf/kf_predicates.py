"""Named, reviewed predicates for known findings.  Each takes (site, witness) and decides whether the violation is an
instance of the *mechanism* the finding describes.  Keep them as tight as the mechanism allows."""
