"""C16 — polynomial utilities are exact polynomial algebra (differential runs over Fractions).

Every real function of polynomial.py and the polynomial evaluators of floating_point_algorithms.py is called with
Fraction coefficients/arguments; the oracle is the direct definition sum(c_i x^i) and coefficient identities.
"""
from fractions import Fraction as F
import math
import random

from .. import contracts

LEVEL = "exploration"
RULE = ("every degree 0..40 (and 499..520 across the len>500 scheme switch) x random rational coefficient vectors (zeros, leading/trailing zeros, "
        "all-nonzero for ratio form) x rational points x all schemes/reverse flags/Laurent regimes; divmod/multiply/add/derivative/taylorat by "
        "coefficient identities. distinct_nontrivial = distinct (function, scheme, reverse, degree, zero-pattern class) tuples with degree >= 1")
ASSUME = ["Python Fraction arithmetic is exact"]
REQUIRE = ["evaluations", "site:poly.fast_polynomial", "site:fpa.fast_polynomial", "site:fpa.horner", "site:fpa.compensated_horner", "site:fpa.laurent", "site:rpolynomial", "site:rpolynomial-zero-ratio",
           "site:divmod", "site:taylorat", "site:derivative", "site:multiply", "site:add", "site:big-degree"]


def QCtx():
    """the package's own exact context (utils.FractionContext): the ctx-taking evaluators must run over rationals with it"""
    from functional_algorithms import utils as fa_utils

    return fa_utils.FractionContext()


def direct(cs, x):
    s = F(0)
    p = F(1)
    for c in cs:
        s += c * p
        p *= x
    return s


def norm(p):
    p = [F(c) for c in p]
    while p and p[-1] == 0:
        p.pop()
    return p


def pmul(a, b):
    if not a or not b:
        return []
    r = [F(0)] * (len(a) + len(b) - 1)
    for i, x in enumerate(a):
        for j, y in enumerate(b):
            r[i + j] += x * y
    return r


def padd(a, b):
    n = max(len(a), len(b))
    return [(a[i] if i < len(a) else 0) + (b[i] if i < len(b) else 0) for i in range(n)]


def rand_coeffs(rnd, deg, mode):
    def c():
        return F(rnd.randint(-9, 9), rnd.randint(1, 6))

    cs = [c() for _ in range(deg + 1)]
    if mode == "nonzero":
        cs = [v if v != 0 else F(1, 3) for v in cs]
    elif mode == "sparse":
        cs = [v if rnd.random() < 0.5 else F(0) for v in cs]
    elif mode == "lead0":
        cs[-1] = F(0)
        if deg >= 2 and rnd.random() < 0.5:
            cs[-2] = F(0)
    elif mode == "trail0":
        cs[0] = F(0)
        if deg >= 2 and rnd.random() < 0.5:
            cs[1] = F(0)
    elif mode == "mono":
        cs = [F(0)] * deg + [c() or F(1)]
    return cs


def zclass(cs):
    nz = [v != 0 for v in cs]
    return ("all0" if not any(nz) else "dense" if all(nz) else ("lead0" if not nz[-1] else "trail0" if not nz[0] else "inner0"))


def wit(**kw):
    return {k: ([str(c) for c in v] if isinstance(v, list) else (str(v) if isinstance(v, F) else v)) for k, v in kw.items()}


def check_poly(rnd, rec, P, fpa, deg, mode, big=False):
    cs = rand_coeffs(rnd, deg, mode)
    x = F(rnd.randint(-7, 7), rnd.randint(1, 5)) if not big else F(rnd.choice([-1, 1, 1, 2, -2]), rnd.choice([1, 2]))
    if x == 0 and rnd.random() < 0.7:
        x = F(1, 2)
    zc = zclass(cs)
    schemes = ["horner_scheme", "estrin_dac_scheme", "balanced_dac_scheme", "canonical_scheme", None]
    for sname in schemes:
        for rev in (False, True):
            want = direct(cs[::-1] if rev else cs, x)
            for modname, mod in (("poly", P), ("fpa", fpa)):
                if big and modname == "fpa" and sname == "horner_scheme":
                    continue  # recursion depth is the documented reason for the len>500 switch (polynomial.py only)
                if big and sname in ("horner_scheme", "canonical_scheme") and modname == "poly" and False:
                    continue
                sch = getattr(mod, sname) if sname else None
                rec.count("evaluations")
                rec.count(f"site:{modname}.fast_polynomial")
                if big:
                    rec.count("site:big-degree")
                try:
                    got = mod.fast_polynomial(x, cs, reverse=rev, scheme=sch) if modname == "poly" else mod.fast_polynomial(QCtx(), x, cs, reverse=rev, scheme=sch)
                except RecursionError:
                    rec.count("refused:recursion")
                    continue
                except Exception as e:
                    rec.violation(f"{modname}.fast_polynomial-exception", wit(scheme=sname, reverse=rev, deg=deg, coeffs=cs if deg < 12 else None, x=x, exc=f"{type(e).__name__}: {e}"[:200]))
                    continue
                if got != want:
                    site = f"{modname}.fast_polynomial-value"
                    rec.violation(site, wit(scheme=sname, reverse=rev, deg=deg, coeffs=cs if deg < 12 else None, x=x, got=got, want=want, seedinfo=mode))
                if deg >= 1:
                    rec.cls(modname, "fast_polynomial", sname, rev, deg, zc)
    if big:
        return
    # horner
    for rev in (False, True):
        want = direct(cs[::-1] if rev else cs, x)
        rec.count("evaluations")
        rec.count("site:fpa.horner")
        got = fpa.horner(QCtx(), x, cs, reverse=rev)
        if got != want:
            rec.violation("fpa.horner-value", wit(reverse=rev, deg=deg, coeffs=cs if deg < 12 else None, x=x, got=got, want=want))
    # compensated Horner: an error-free scheme over floats (value = s + r); driven with small integers so that every float operation is exact
    if deg <= 14:
        import numpy
        from functional_algorithms import utils as fa_utils

        nctx = fa_utils.NumpyContext(numpy.float64)
        ci = [rnd.randint(-20, 20) if rnd.random() < 0.85 else 0 for _ in range(deg + 1)]
        xi = rnd.choice([-3, -2, -1, 0, 1, 2, 3])
        for rev in (False, True):
            want = direct([F(c) for c in (ci[::-1] if rev else ci)], F(xi))
            rec.count("evaluations")
            rec.count("site:fpa.compensated_horner")
            try:
                with numpy.errstate(all="ignore"):
                    s_, r_ = fpa.compensated_horner(nctx, numpy.float64(xi), [numpy.float64(c) for c in ci], reverse=rev)
                got = F(float(s_)) + F(float(r_))
            except Exception as e:
                rec.violation("fpa.compensated_horner-exception", wit(reverse=rev, deg=deg, coeffs=ci, x=xi, exc=f"{type(e).__name__}: {e}"[:200]))
                continue
            if got != want:
                rec.violation("fpa.compensated_horner-value", wit(reverse=rev, deg=deg, coeffs=ci, x=xi, got=got, want=want))
        if deg >= 1:
            rec.cls("fpa", "horner", rev, deg, zc)
    # laurent: all four regimes of m
    if x != 0:
        n = len(cs)
        for m in sorted({0, 1, 3, -1, -(n // 2), -(n - 1), -n, -n - 2} ):
            for rev in (False, True):
                for sname in (None, "horner_scheme", "estrin_dac_scheme"):
                    sch = getattr(fpa, sname) if sname else None
                    C = cs[::-1] if rev else cs
                    want = sum((C[j] * x ** (j + m) for j in range(n)), F(0))
                    rec.count("evaluations")
                    rec.count("site:fpa.laurent")
                    try:
                        got = fpa.laurent(QCtx(), x, list(cs), m, reverse=rev, scheme=sch)
                    except Exception as e:
                        rec.violation("fpa.laurent-exception", wit(m=m, reverse=rev, scheme=sname, deg=deg, coeffs=cs if deg < 12 else None, x=x, exc=f"{type(e).__name__}: {e}"[:200]))
                        continue
                    if got != want:
                        rec.violation("fpa.laurent-value", wit(m=m, reverse=rev, scheme=sname, deg=deg, coeffs=cs if deg < 12 else None, x=x, got=got, want=want))
                    if deg >= 1:
                        regime = "m0" if m == 0 else "m+" if m > 0 else ("split" if -m < n else "allneg")
                        rec.cls("fpa", "laurent", regime, rev, sname, min(deg, 6), zc)
    # ratio form (defined when all coefficients are non-zero)
    if all(c != 0 for c in cs):
        for rev in (False, True):
            rc = P.asrpolynomial(list(cs), reverse=rev)
            rec.count("evaluations")
            rec.count("site:rpolynomial")
            # conversion back: coefficient form from ratio form
            if rev:
                back = [None] * len(cs)
                back[-1] = rc[-1]
                for i in range(len(cs) - 2, -1, -1):
                    back[i] = rc[i] * back[i + 1]
            else:
                back = [rc[0]]
                for i in range(1, len(cs)):
                    back.append(rc[i] * back[i - 1])
            if back != cs:
                rec.violation("asrpolynomial-roundtrip", wit(reverse=rev, coeffs=cs, rcoeffs=rc))
            want = direct(cs[::-1] if rev else cs, x)
            from functional_algorithms import utils as fa_utils_

            for modname, call in (("poly", lambda: P.rpolynomial(x, rc, reverse=rev)), ("fpa", lambda: fpa.rpolynomial(QCtx(), x, rc, reverse=rev)),
                                  ("fpa:FractionContext", lambda: fpa.rpolynomial(fa_utils_.FractionContext(), x, rc, reverse=rev))):
                try:
                    got = call()
                except Exception as e:
                    rec.violation(f"{modname.split(':')[0]}.rpolynomial-exception", wit(reverse=rev, context=modname, coeffs=cs if deg < 12 else None, x=x, exc=f"{type(e).__name__}: {e}"[:200]))
                    continue
                if got != want:
                    rec.violation(f"{modname}.rpolynomial-value", wit(reverse=rev, coeffs=cs if deg < 12 else None, x=x, got=got, want=want))
            if deg >= 1:
                rec.cls("rpolynomial", rev, deg)
    # ratio lists with zero ratios: coeffs[i] = rcoeffs[i] * coeffs[i-1], so a zero ratio makes that coefficient and all higher ones vanish - a polynomial like
    # any other (asrpolynomial itself produces a final zero ratio for a vanishing leading coefficient)
    from functional_algorithms import utils as fa_utils2_

    for _ in range(2):
        nrc = rnd.randint(2, 9)
        rc0 = [F(rnd.choice([-1, 1]) * rnd.randint(1, 9), rnd.randint(1, 6)) for _ in range(nrc)]
        for j_ in rnd.sample(range(1, nrc), rnd.randint(1, min(2, nrc - 1))):
            rc0[j_] = F(0)
        implied = [rc0[0]]
        for i in range(1, nrc):
            implied.append(rc0[i] * implied[i - 1])
        for rev in (False, True):
            rcl = rc0[::-1] if rev else list(rc0)
            want = direct(implied, x)
            rec.count("evaluations")
            rec.count("site:rpolynomial-zero-ratio")
            for modname, call in (("poly", lambda: P.rpolynomial(x, list(rcl), reverse=rev)), ("fpa", lambda: fpa.rpolynomial(QCtx(), x, list(rcl), reverse=rev))):
                try:
                    got = call()
                except Exception as e:
                    rec.violation(f"{modname}.rpolynomial-exception", wit(reverse=rev, context=modname, rcoeffs=rcl, x=x, exc=f"{type(e).__name__}: {e}"[:200]))
                    continue
                if got != want:
                    rec.violation(f"{modname}.rpolynomial-value", wit(reverse=rev, rcoeffs=rcl, implied_coeffs=implied, x=x, got=got, want=want))
            rec.cls("rpolynomial-zero-ratio", rev, nrc, rc0.index(F(0)))
    if len(cs) >= 2 and cs[-1] == 0 and all(c != 0 for c in cs[:-1]):
        # a vanishing leading coefficient through the package's own conversion
        rc = P.asrpolynomial(list(cs), reverse=False)
        want = direct(cs, x)
        got = P.rpolynomial(x, rc)
        rec.count("site:rpolynomial-zero-ratio")
        if got != want:
            rec.violation("poly.rpolynomial-value", wit(reverse=False, coeffs=cs, rcoeffs=rc, x=x, got=got, want=want))
    # algebra
    deg2 = rnd.randint(0, 8)
    Qc = rand_coeffs(rnd, deg2, rnd.choice(["dense", "sparse", "lead0", "trail0"]))
    for rev in (False, True):
        A, B = (cs[::-1], Qc[::-1]) if rev else (cs, Qc)
        rec.count("evaluations", 2)
        rec.count("site:multiply")
        rec.count("site:add")
        got = P.multiply(list(A), list(B), reverse=rev)
        gotn = norm(got[::-1] if rev else got)
        if gotn != norm(pmul(cs, Qc)):
            rec.violation("multiply", wit(reverse=rev, P=A, Q=B, got=got))
        got = P.add(list(A), list(B), reverse=rev)
        gotn = norm(got[::-1] if rev else got)
        if gotn != norm(padd(cs, Qc)):
            rec.violation("add", wit(reverse=rev, P=A, Q=B, got=got))
        # scalar forms
        s = F(rnd.randint(-3, 3), 2)
        got = P.multiply(list(A), s, reverse=rev)
        if norm(got[::-1] if rev else got) != norm([c * s for c in cs]):
            rec.violation("multiply-scalar", wit(reverse=rev, P=A, s=s, got=got))
        # derivative n = 0..3
        for n in (0, 1, 2, 3):
            rec.count("evaluations")
            rec.count("site:derivative")
            want = list(cs)
            for _ in range(n):
                want = [want[i] * i for i in range(1, len(want))]
            got = P.derivative(list(A), n=n, reverse=rev)
            if norm(got[::-1] if rev else got) != norm(want):
                rec.violation("derivative", wit(reverse=rev, n=n, P=A, got=got))
        # taylorat: sum C_m (z - z0)^m == P(z) as polynomials
        z0 = F(rnd.randint(-4, 4), rnd.randint(1, 3))
        rec.count("evaluations")
        rec.count("site:taylorat")
        C = P.taylorat(list(A), z0, reverse=rev)
        Cn = C[::-1] if rev else C
        acc = []
        pw = [F(1)]
        for c in Cn:
            acc = padd(acc, [c * v for v in pw])
            pw = pmul(pw, [-z0, F(1)])
        if norm(acc) != norm(cs) or len(C) != len(cs):
            rec.violation("taylorat", wit(reverse=rev, P=A, z0=z0, got=C))
        if not rev and len(cs) > 1:
            size = rnd.randint(1, len(cs))
            Cs = P.taylorat(list(A), z0, size=size)
            if list(Cs) != list(C[:size]):
                rec.violation("taylorat-size", wit(P=A, z0=z0, size=size, got=Cs))
        # divmod
        D = rand_coeffs(rnd, rnd.randint(0, 4), rnd.choice(["dense", "sparse", "lead0", "trail0"]))
        if any(D):
            Dd = D[::-1] if rev else D
            rec.count("evaluations")
            rec.count("site:divmod")
            try:
                Qq, R = P.divmod(list(A), list(Dd), reverse=rev)
            except Exception as e:
                rec.violation("divmod-exception", wit(reverse=rev, P=A, D=Dd, exc=f"{type(e).__name__}: {e}"[:200]))
                continue
            Qn, Rn = (Qq[::-1], R[::-1]) if rev else (Qq, R)
            lhs = norm(padd(pmul(norm(Qn), norm(D)), norm(Rn)))
            ok_id = lhs == norm(cs)
            ok_deg = len(norm(Rn)) < len(norm(D))
            if not (ok_id and ok_deg):
                rec.violation("divmod-identity" if not ok_id else "divmod-degree", wit(reverse=rev, P=A, D=Dd, Q=Qq, R=R))
            if deg >= 1:
                rec.cls("divmod", rev, min(deg, 8), len(norm(D)), zc, zclass(D))
    if deg >= 1:
        rec.cls("algebra", deg, zc)
    if rec.counters["evaluations"] < 400:
        rec.sample(wit(deg=deg, coeffs=cs if deg < 10 else cs[:10], x=x, mode=mode))


def task_degrees(params, rec):
    from functional_algorithms import polynomial as P, floating_point_algorithms as fpa

    rnd = random.Random(f"{params['seed']}-{params['shard']}")
    modes = ["dense", "nonzero", "sparse", "lead0", "trail0", "mono"]
    for deg in params["degrees"]:
        for rep in range(params["reps"]):
            check_poly(rnd, rec, P, fpa, deg, modes[rep % len(modes)], big=deg > 100)


TASKS = {"degrees": task_degrees}


def plan(tier, seed):
    t = []
    reps = 80 if tier == "quick" else 1500
    degs = list(range(0, 41)) if tier == "quick" else list(range(0, 81))
    nsh = 14
    for s in range(nsh):
        t.append(("degrees", dict(degrees=degs[s::nsh], reps=reps, seed=seed, shard=s)))
    big = list(range(499, 521)) + list(range(140, 160)) + list(range(250, 262)) + list(range(1020, 1030))
    nb = 2 if tier == "quick" else 14
    bigsel = big if tier == "thorough" else [499, 500, 501, 520]
    for s in range(nb):
        t.append(("degrees", dict(degrees=bigsel[s::nb], reps=2 if tier == "quick" else 12, seed=seed, shard=100 + s)))
    return t


def replay(site, witness, rec):
    from functional_algorithms import polynomial as P, floating_point_algorithms as fpa

    # replay by re-running the degree with many random vectors (witness coefficients are re-checked when present)
    if witness.get("coeffs") and witness.get("x") is not None and "fast_polynomial" in site:
        cs = [F(c) for c in witness["coeffs"]]
        x = F(witness["x"])
        rev = witness["reverse"]
        modname = site.split(".")[0]
        mod = P if modname == "poly" else fpa
        sch = getattr(mod, witness["scheme"]) if witness["scheme"] else None
        got = mod.fast_polynomial(x, cs, reverse=rev, scheme=sch) if modname == "poly" else mod.fast_polynomial(QCtx(), x, cs, reverse=rev, scheme=sch)
        if got != direct(cs[::-1] if rev else cs, x):
            rec.violation(site, witness)
        return
    rnd = random.Random(0)
    deg = witness.get("deg", 5)
    for rep in range(60):
        check_poly(rnd, rec, P, fpa, deg, ["dense", "nonzero", "sparse", "lead0", "trail0", "mono"][rep % 6], big=deg > 100)
