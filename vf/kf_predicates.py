"""Named, reviewed predicates for known findings.  Each takes (site, witness) and decides whether the violation is an
instance of the *mechanism* the finding describes.  Keep them as tight as the mechanism allows."""


def _unfl(d):
    return float.fromhex(d["hex"]) if isinstance(d, dict) and "hex" in d else d


def c14_array_form_over_int64(site, w):
    """array form of diff_ulp in float64 when some distance >= 2**63: result is the float64 rounding of the exact distances"""
    if site != "array-form" or w.get("dtype") != "float64":
        return False
    exp, got = w["expected"], w["got"]
    return max(exp) >= 2**63 and all(int(float(e)) == int(g) for e, g in zip(exp, got))
