#!/bin/bash
# tools/try_seed.sh <patch.diff> <Cxx> [tier]  : apply a seeded change to /repo, run the check, always undo.
# Refuses to run while a background `vp run` may be using /repo.
set -u
PATCH="$1"; PID="$2"; TIER="${3:-quick}"
cd /repo || exit 3
if [ -n "$(git status --porcelain)" ]; then echo "REFUSED: /repo working tree not clean"; exit 3; fi
if ! git apply --check "$PATCH" 2>/dev/null; then echo "REFUSED: patch does not apply"; exit 3; fi
git apply "$PATCH"
trap 'git -C /repo checkout -- . ; git -C /repo clean -fdq -- functional_algorithms >/dev/null 2>&1' EXIT
cd /verif
OUT=$(VERIF_EVIDENCE_SKIP=1 ./check "$PID" --tier "$TIER" 2>&1); RC=$?
echo "$OUT" | grep -v "^KNOWN-FINDING" | cut -c1-400 | tail -6
echo "exit=$RC"
