/* Independent MXCSR observer (not the repository's generated stubs). */
#include <xmmintrin.h>
#include <stdint.h>
#include <string.h>
unsigned int vf_get_mxcsr(void) { return _mm_getcsr(); }
void vf_set_mxcsr(unsigned int v) { _mm_setcsr(v); }
/* arithmetic probes: operands and results travel as bit patterns so that no int<->float or float<->double conversion
   (which is itself subject to FTZ/DAZ) happens outside the one operation under observation */
static float f_of(uint32_t b) { float f; memcpy(&f, &b, 4); return f; }
static uint32_t b_of(float f) { uint32_t b; memcpy(&b, &f, 4); return b; }
uint32_t vf_mul_bits(uint32_t a, uint32_t b) { volatile float x = f_of(a), y = f_of(b); volatile float r = x * y; return b_of(r); }
uint32_t vf_add_bits(uint32_t a, uint32_t b) { volatile float x = f_of(a), y = f_of(b); volatile float r = x + y; return b_of(r); }
