"""C06 — StableHLO (TableGen pattern) and XLA-client (C++ builder) output is a faithful rendering of the graph.

The emitted text is parsed back by independent hand-written parsers (vf.parsers) and walked in lock-step with the graph:
operator per kind (table written from the StableHLO/CHLO and xla:: builder names), arity and operand order, comparison
directions, named and numeric constants (exact value incl. the sign of zero), element class of the operand a constant is
attached to, and the binding discipline: every name bound exactly once before it is referenced.
"""
import io
import contextlib
import math
import os
import random
import warnings

import numpy

from .. import parsers, exprinterp
from ..parsers import Node, Ref, Lit, Token, ParseError
from .c05 import ProgGen, trace_program, fa_expr, describe

LEVEL = "translation_validation"
RULE = ("programs = every (function, signature) in the stablehlo and xla_client trace_arguments (xla_client with the alternative constant context) + unit programs for every "
        "declared kind and named constant + random graphs over the declared kinds, with and without clang-format on PATH. A program is non-trivial when its text binds "
        "at least one name or contains a constant or comparison")
ASSUME = ["the texts cannot be executed here (no MLIR / XLA): the monitor establishes that the rendering is isomorphic to the graph, not the semantics of the downstream operators",
          "expected operator names are written from the StableHLO/CHLO dialect and xla:: client-builder function names; kinds whose template names no operator known to this table (positive) are counted, not judged"]
REQUIRE = ["programs", "programs:stablehlo", "programs:xla_client", "nodes:matched", "bindings:checked", "constants:checked", "comparisons:checked"]

HLO = dict(absolute="StableHLO_AbsOp", negative="StableHLO_NegOp", add="StableHLO_AddOp", subtract="StableHLO_SubtractOp", multiply="StableHLO_MulOp", divide="StableHLO_DivOp",
           logical_and="StableHLO_AndOp", logical_or="StableHLO_OrOp", logical_xor="StableHLO_XorOp", logical_not="StableHLO_NotOp", maximum="StableHLO_MaxOp", minimum="StableHLO_MinOp",
           atan2="StableHLO_Atan2Op", cos="StableHLO_CosineOp", sin="StableHLO_SineOp", exp="StableHLO_ExpOp", expm1="StableHLO_Expm1Op", log="StableHLO_LogOp", log1p="StableHLO_Log1pOp",
           sign="StableHLO_SignOp", real="StableHLO_RealOp", imag="StableHLO_ImagOp", complex="StableHLO_ComplexOp", sqrt="StableHLO_SqrtOp", select="StableHLO_SelectOp",
           is_finite="StableHLO_IsFiniteOp", bitwise_left_shift="StableHLO_ShiftLeftOp", bitwise_right_shift="StableHLO_ShiftRightArithmeticOp",
           acos="CHLO_AcosOp", acosh="CHLO_AcoshOp", asin="CHLO_AsinOp", asinh="CHLO_AsinhOp", atan="CHLO_AtanOp", atanh="CHLO_AtanhOp", asin_acos_kernel="CHLO_AsinAcosKernelOp",
           nextafter="CHLO_NextAfterOp")
HLO_CONST = dict(largest="StableHLO_ConstantLikeMaxFiniteValue", smallest="StableHLO_ConstantLikeSmallestNormalizedValue", posinf="StableHLO_ConstantLikePosInfValue",
                 neginf="StableHLO_ConstantLikeNegInfValue")
XLA = dict(absolute="Abs", negative="Neg", add="Add", subtract="Sub", multiply="Mul", divide="Div", remainder="Rem", pow="Pow", logical_and="And", logical_or="Or", logical_xor="Xor",
           logical_not="Not", maximum="Max", minimum="Min", acos="Acos", acosh="Acosh", asin="Asin", asinh="Asinh", atan="Atan", atanh="Atanh", atan2="Atan2", cos="Cos", cosh="Cosh",
           sin="Sin", sinh="Sinh", tan="Tan", tanh="Tanh", exp="Exp", expm1="Expm1", log="Log", log1p="Log1p", ceil="Ceil", floor="Floor", round="Round", sign="Sign", real="Real", imag="Imag",
           complex="Complex", square="Square", sqrt="Sqrt", select="Select", lt="Lt", le="Le", gt="Gt", ge="Ge", eq="Eq", ne="Ne", is_finite="IsFinite", nextafter="NextAfter",
           log2="Log2", log10="Log10")
UNVERIFIABLE = {"positive"}


def is_cplx(e):
    try:
        return bool(e.get_type().is_complex)
    except Exception:
        return False


def equivalent_constants(a, b):
    """constants that differ only in their `like` expression (same value bits / name, same static type): one name for both is not a substitution"""
    if a is b:
        return True
    if getattr(a, "kind", None) != "constant" or getattr(b, "kind", None) != "constant":
        return False
    va, vb = a.operands[0], b.operands[0]
    if hasattr(va, "kind") or hasattr(vb, "kind"):
        same = va is vb or (hasattr(va, "kind") and hasattr(vb, "kind") and str(va) == str(vb))
    else:
        same = type(va) is type(vb) and (va == vb or (va != va and vb != vb)) and (isinstance(va, str) or math.copysign(1, complex(va).real) == math.copysign(1, complex(vb).real))
    try:
        return bool(same) and a.get_type().is_same(b.get_type())
    except Exception:
        return False


def const_matches(value, literal):
    """the printed literal denotes exactly the constant's value (sign of zero included)"""
    try:
        if isinstance(value, (bool, numpy.bool_)):
            return literal.strip() in ("True", "False", "true", "false", "1", "0") and (literal.strip() in ("True", "true", "1")) == bool(value)
        if isinstance(value, (complex, numpy.complexfloating)):
            return complex(literal.replace(" ", "")) == complex(value)
        a = float(literal.rstrip("fFlL"))
        b = float(value)
        if math.isnan(b):
            return math.isnan(a)
        return a == b and math.copysign(1, a) == math.copysign(1, b)
    except Exception:
        return False


class Walker:
    def __init__(self, rec, label, target):
        self.rec, self.label, self.target = rec, label, target
        self.env = {}
        self.problems = []

    def bad(self, what, **kw):
        self.problems.append((what, kw))


# ------------------------------------------------------------------------------------------------ StableHLO
class TdWalker(Walker):
    def check(self, g, text):
        rec = self.rec
        try:
            name, src, args, body = parsers.parse_td(text)
        except ParseError as e:
            self.bad("does-not-parse", error=str(e)[:200])
            return
        params = g.operands[1:-1]
        if len(args) != len(params):
            self.bad("signature-arity", text_args=len(args), graph_args=len(params))
            return
        for (typ, arg), p in zip(args, params):
            want = "ComplexElementType" if is_cplx(p) else "NonComplexElementType"
            if typ != want:
                self.bad("argument-element-type", arg=arg, got=typ, want=want)
            if arg in self.env:
                self.bad("argument-bound-twice", arg=arg)
            self.env[arg] = p
        self.walk(body, g.operands[-1])

    def walk(self, t, e):
        rec = self.rec
        if isinstance(t, Ref):
            rec.count("bindings:checked")
            if t.name not in self.env:
                self.bad("reference-before-binding", name=t.name, expr=describe(e))
            elif self.env[t.name] is not e and not equivalent_constants(self.env[t.name], e):
                self.bad("reference-denotes-other-expression", name=t.name, bound=describe(self.env[t.name]), expected=describe(e))
            return
        if not isinstance(t, Node):
            self.bad("unexpected-operand", got=repr(t)[:80], expr=describe(e))
            return
        # the node itself; binding happens before the operands are read (left-to-right, depth first: an operand may refer to an enclosing binding? no - DRR binds
        # the result of the op, which is available to later siblings only; the printer relies on exactly that order)
        kind = e.kind
        if kind == "constant":
            value, like = e.operands
            rec.count("constants:checked")
            if isinstance(value, str):
                if value in HLO_CONST:
                    if t.op != HLO_CONST[value] or t.template is not None:
                        self.bad("named-constant-operator", constant=value, got=t.op)
                elif value == "pi":
                    if not (t.op == "StableHLO_ConstantLike" and t.template == "M_PI"):
                        self.bad("named-constant-operator", constant=value, got=f"{t.op}<{t.template}>")
                else:
                    rec.count("constants:undeclared-name")
            else:
                if t.op != "StableHLO_ConstantLike" or t.template is None:
                    self.bad("constant-operator", got=t.op)
                elif hasattr(value, "kind"):
                    rec.count("constants:alt-expression")
                elif not const_matches(value, t.template):
                    self.bad("constant-value", value=repr(value), literal=t.template)
            if len(t.operands) != 1:
                self.bad("constant-arity", got=len(t.operands))
            else:
                lk = t.operands[0]
                if isinstance(lk, Ref):
                    rec.count("bindings:checked")
                    if lk.name not in self.env:
                        self.bad("constant-attached-to-unbound-name", name=lk.name, expr=describe(e))
                    elif is_cplx(self.env[lk.name]) != is_cplx(e):
                        self.bad("constant-attached-to-wrong-element-class", name=lk.name, constant_complex=is_cplx(e), operand_complex=is_cplx(self.env[lk.name]))
                elif isinstance(lk, Node):
                    # the `like` operand printed inline (binding in that position is accepted; once-before-use still applies)
                    self.walk(lk, like)
                    if is_cplx(like) != is_cplx(e):
                        self.bad("constant-attached-to-wrong-element-class", constant_complex=is_cplx(e))
            self.bind(t, e)
            return
        if kind in ("lt", "le", "gt", "ge", "eq", "ne"):
            rec.count("comparisons:checked")
            if t.op != "StableHLO_CompareOp":
                self.bad("comparison-operator", got=t.op)
            ops = [o for o in t.operands]
            if len(ops) != 4 or not isinstance(ops[2], Token) or ops[2].name != "StableHLO_ComparisonDirectionValue":
                self.bad("comparison-shape", got=repr(ops)[:200])
            else:
                if ops[2].template != kind.upper():
                    self.bad("comparison-direction", got=ops[2].template, want=kind.upper(), expr=describe(e))
                if not (isinstance(ops[3], Node) and ops[3].op == "STABLEHLO_DEFAULT_COMPARISON_TYPE"):
                    self.bad("comparison-type", got=repr(ops[3])[:80])
                self.walk(ops[0], e.operands[0])
                self.walk(ops[1], e.operands[1])
            self.bind(t, e)
            return
        want = HLO.get(kind)
        if want is None:
            if kind in UNVERIFIABLE:
                rec.count("operators:unverifiable:" + kind)
            else:
                self.bad("no-operator-known-for-kind", kind=kind, got=t.op)
        elif t.op != want:
            self.bad("operator", kind=kind, got=t.op, want=want, expr=describe(e))
        if t.template is not None:
            self.bad("unexpected-template", op=t.op, template=t.template)
        if len(t.operands) != len(e.operands):
            self.bad("arity", kind=kind, got=len(t.operands), want=len(e.operands), expr=describe(e))
        else:
            for to, eo in zip(t.operands, e.operands):
                self.walk(to, eo)
        rec.count("nodes:matched")
        self.bind(t, e)

    def bind(self, t, e):
        if t.ref:
            self.rec.count("bindings:checked")
            if t.ref in self.env:
                self.bad("name-bound-twice", name=t.ref, first=describe(self.env[t.ref]), second=describe(e))
            self.env[t.ref] = e


# ------------------------------------------------------------------------------------------------ XLA client
class XlaWalker(Walker):
    def check(self, g, text):
        rec = self.rec
        try:
            f = parsers.parse_xla(text)
        except ParseError as e:
            self.bad("does-not-parse", error=str(e)[:200])
            return
        params = g.operands[1:-1]
        if len(f["args"]) != len(params):
            self.bad("signature-arity", text_args=len(f["args"]), graph_args=len(params))
            return
        # every type name the body uses is either XlaOp or the declared template parameter (std::numeric_limits<T>, T(..) casts and "T name = .." locals)
        import re as _re

        body = text[text.find("{"):] if "{" in text else text
        used_types = set(_re.findall(r"std::numeric_limits<\s*([A-Za-z_][A-Za-z_0-9]*)\s*>", body)) | {t_ for t_, _, _ in f["stmts"] if t_ != "XlaOp"}
        for tname_ in sorted(used_types):
            rec.count("bindings:checked")
            if tname_ != f["template"] and tname_ not in ("float", "double", "bool", "int"):
                self.bad("type-name-not-declared", name=tname_, template_parameter=f["template"])
        for (typ, a), p in zip(f["args"], params):
            if typ != "XlaOp":
                self.bad("argument-type", got=typ)
            self.env[a] = ("op", p)
        # statements bind in order; find the expression each name denotes by walking the graph from the root and resolving names lazily:
        self.pending = {ref: (typ, ex) for typ, ref, ex in f["stmts"]}
        order = [ref for _, ref, _ in f["stmts"]]
        if len(set(order)) != len(order):
            dup = [r for r in order if order.count(r) > 1][0]
            self.bad("name-bound-twice", name=dup)
        self.position = {ref: i for i, ref in enumerate(order)}
        self.seen_at = {}
        self.cur_stmt = len(order)  # the return statement
        self.walk(f["result"], g.operands[-1])
        # every statement must have been reached (a binding that no expression denotes is dead text, harmless but reported as a count)
        for ref in order:
            if ref not in self.seen_at:
                rec.count("xla:unreferenced-binding")

    def resolve(self, name, e, const_ctx=False):
        """name used at statement position self.cur_stmt must be bound earlier; returns its defining expression text or None for arguments"""
        rec = self.rec
        rec.count("bindings:checked")
        if name in self.env and name not in self.pending:
            kind, bound = self.env[name]
            if bound is not e and not equivalent_constants(bound, e):
                self.bad("reference-denotes-other-expression", name=name, bound=describe(bound), expected=describe(e))
            return None
        if name not in self.pending:
            self.bad("reference-before-binding", name=name, expr=describe(e))
            return None
        if self.position[name] >= self.cur_stmt:
            self.bad("reference-before-binding", name=name, note="declared later in the text", expr=describe(e))
        if name in self.seen_at:
            if self.seen_at[name] is not e and not equivalent_constants(self.seen_at[name], e):
                self.bad("reference-denotes-other-expression", name=name, bound=describe(self.seen_at[name]), expected=describe(e))
            return None
        self.seen_at[name] = e
        typ, ex = self.pending[name]
        return typ, ex

    def walk(self, t, e):
        rec = self.rec
        if e.kind == "positive":
            # template "({0})": the identity, no operator to verify
            rec.count("operators:unverifiable:positive")
            self.walk(t, e.operands[0])
            return
        if isinstance(t, Ref):
            r = self.resolve(t.name, e)
            if r is not None:
                typ, ex = r
                saved = self.cur_stmt
                self.cur_stmt = self.position[t.name]
                if typ != "XlaOp":
                    self.bad("binding-type", name=t.name, got=typ, expr=describe(e))
                self.walk(ex, e)
                self.cur_stmt = saved
            return
        kind = e.kind
        if kind == "constant":
            value, like = e.operands
            rec.count("constants:checked")
            if not (isinstance(t, Node) and t.op == "ScalarLike" and len(t.operands) == 2):
                self.bad("constant-operator", got=repr(t)[:100], expr=describe(e))
                return
            lk, val = t.operands
            rec.count("bindings:checked")
            self.walk(lk, like)  # the operand the constant is attached to must be (bound to) the constant's like expression
            if is_cplx(like) != is_cplx(e):
                self.bad("constant-attached-to-wrong-element-class", expr=describe(e))
            self.check_value(val, value, e)
            return
        if not isinstance(t, Node):
            self.bad("unexpected-operand", got=repr(t)[:80], expr=describe(e))
            return
        want = XLA.get(kind)
        if want is None:
            if kind in UNVERIFIABLE:
                rec.count("operators:unverifiable:" + kind)
                if len(e.operands) == 1:
                    self.walk(t, e.operands[0])
                return
            self.bad("no-operator-known-for-kind", kind=kind, got=t.op)
        elif t.op != want:
            self.bad("operator", kind=kind, got=t.op, want=want, expr=describe(e))
        if kind in ("lt", "le", "gt", "ge", "eq", "ne"):
            rec.count("comparisons:checked")
        if len(t.operands) != len(e.operands):
            self.bad("arity", kind=kind, got=len(t.operands), want=len(e.operands), expr=describe(e))
        else:
            for to, eo in zip(t.operands, e.operands):
                self.walk(to, eo)
        rec.count("nodes:matched")

    # ---- compile-time constant sub-expressions (alternative context printed with the C++ constant grammar)
    def check_value(self, t, value, e):
        if hasattr(value, "kind"):
            # alt-context expression: evaluate the text and the alt graph for float32 and float64
            for dt in (numpy.float32, numpy.float64):
                try:
                    got = self.ceval(t, dt)
                except Exception as ex:
                    self.bad("constant-expression-not-evaluable", error=f"{type(ex).__name__}: {ex}"[:120], expr=describe(e))
                    return
                try:
                    want = eval_alt(value, dt)
                except Exception:
                    self.rec.count("constants:alt-reference-unsupported")
                    return
                self.rec.count("constants:alt-evaluated")
                if not (got == want or (math.isnan(got) and math.isnan(want))):
                    self.bad("constant-expression-value", got=float(got), want=float(want), dtype=dt.__name__, expr=describe(e))
                    return
        else:
            if isinstance(t, Node) and t.op == "u-" and isinstance(t.operands[0], Lit):
                lit = "-" + t.operands[0].text
            elif isinstance(t, Lit):
                lit = t.text
            else:
                try:
                    lit = repr(float(self.ceval(t, numpy.float64)))
                except Exception:
                    self.bad("constant-value-not-a-literal", got=repr(t)[:80])
                    return
            if not const_matches(value, lit):
                self.bad("constant-value", value=repr(value), literal=lit)

    def ceval(self, t, dt):
        """evaluate a C++ constant expression over FloatType = dt"""
        fi = numpy.finfo(dt)
        if isinstance(t, Lit):
            if t.text.isdigit():
                return int(t.text)  # a C++ int literal: int / int is an integer division
            return dt(float(t.text.rstrip("fFlL")))
        if isinstance(t, Ref) and t.name == "M_PI":
            return dt(math.pi)
        if isinstance(t, Ref):
            self.rec.count("bindings:checked")
            if t.name not in self.pending:
                raise KeyError(f"unbound constant name {t.name}")
            if self.position[t.name] >= self.cur_stmt and False:
                raise KeyError("constant used before declaration")
            typ, ex = self.pending[t.name]
            self.seen_at.setdefault(t.name, ("const", t.name))
            if typ == "XlaOp":
                raise TypeError(f"{t.name} is an XlaOp, not a compile-time constant")
            v = self.ceval(ex, dt)
            # 'FloatType constant_0 = 0;' is a floating-point variable: its uses are not int literals
            return dt(v) if type(v) is int and typ in ("FloatType", "float", "double", "T") else v
        if isinstance(t, Node):
            a = [self.ceval(o, dt) for o in t.operands]
            with numpy.errstate(all="ignore"):
                if t.op in ("+", "-", "*", "/") and all(type(v_) is int for v_ in a):
                    if t.op == "/":
                        if a[1] == 0:
                            raise ZeroDivisionError("integer division by zero in a compile-time constant")
                        q_ = abs(a[0]) // abs(a[1])
                        return q_ if (a[0] >= 0) == (a[1] >= 0) else -q_  # truncation toward zero
                    return {"+": a[0] + a[1], "-": a[0] - a[1], "*": a[0] * a[1]}[t.op]
                if t.op in ("+", "-", "*", "/"):
                    a = [dt(v_) for v_ in a]
                    return dt({"+": a[0] + a[1], "-": a[0] - a[1], "*": a[0] * a[1], "/": a[0] / a[1]}[t.op])
                if t.op in ("<", "<=", ">", ">=", "==", "!="):
                    return {"<": a[0] < a[1], "<=": a[0] <= a[1], ">": a[0] > a[1], ">=": a[0] >= a[1], "==": a[0] == a[1], "!=": a[0] != a[1]}[t.op]
                if t.op == "?:":
                    return dt(a[1] if a[0] else a[2])
                if t.op in ("&&", "||"):
                    return (a[0] and a[1]) if t.op == "&&" else (a[0] or a[1])
                if t.op == "u-":
                    return -a[0] if type(a[0]) is int else dt(-a[0])
                if t.op == "u+":
                    return a[0] if type(a[0]) is int else dt(a[0])
                if t.op == "u!":
                    return not bool(a[0])
                if t.op.startswith("std::numeric_limits<"):
                    member = t.op.split("::")[-1]
                    return dt({"max": fi.max, "min": fi.smallest_normal, "infinity": numpy.inf, "epsilon": fi.eps, "quiet_NaN": numpy.nan, "denorm_min": fi.smallest_subnormal, "lowest": -fi.max}[member])
                if t.op == "std::copysign":
                    return dt(numpy.copysign(dt(a[0]), dt(a[1])))
                fn = {"std::asinh": numpy.arcsinh, "std::sin": numpy.sin, "std::cos": numpy.cos, "std::atan": numpy.arctan, "std::tanh": numpy.tanh, "std::floor": numpy.floor, "std::ceil": numpy.ceil,
                      "std::expm1": numpy.expm1, "std::acos": numpy.arccos, "std::acosh": numpy.arccosh, "std::atanh": numpy.arctanh, "std::tan": numpy.tan, "std::sinh": numpy.sinh, "std::cosh": numpy.cosh,
                      "std::atan2": numpy.arctan2, "std::sqrt": numpy.sqrt, "std::log": numpy.log, "std::exp": numpy.exp, "std::abs": numpy.abs, "std::max": lambda x, y: y if x < y else x, "std::min": lambda x, y: y if y < x else x,
                      "std::log1p": numpy.log1p, "std::log2": numpy.log2, "std::log10": numpy.log10}.get(t.op)
                if fn is None and t.op in ("float", "double", "FloatType"):
                    return dt(a[0])
                if fn is None:
                    raise NotImplementedError(t.op)
                return dt(fn(*[dt(v_) for v_ in a]))
        raise NotImplementedError(repr(t)[:60])


def eval_alt(expr, dt):
    """value the alternative-context expression denotes for FloatType = dt (independent float interpreter; the alt symbol type is FloatType)"""
    from functional_algorithms import Expr

    def ev(e):
        if e.kind == "constant":
            v = e.operands[0]
            if isinstance(v, Expr):
                return ev(v)
            if isinstance(v, str):
                fi = numpy.finfo(dt)
                return dt(dict(largest=fi.max, smallest=fi.smallest_normal, eps=fi.eps, posinf=numpy.inf, neginf=-numpy.inf, pi=numpy.pi, nan=numpy.nan)[v])
            return dt(v)
        a = [ev(o) for o in e.operands]
        with numpy.errstate(all="ignore"):
            if e.kind in ("add", "subtract", "multiply", "divide"):
                return dt({"add": a[0] + a[1], "subtract": a[0] - a[1], "multiply": a[0] * a[1], "divide": a[0] / a[1]}[e.kind])
            if e.kind in ("lt", "le", "gt", "ge", "eq", "ne"):
                return {"lt": a[0] < a[1], "le": a[0] <= a[1], "gt": a[0] > a[1], "ge": a[0] >= a[1], "eq": a[0] == a[1], "ne": a[0] != a[1]}[e.kind]
            if e.kind == "select":
                return dt(a[1] if a[0] else a[2])
            if e.kind == "logical_and":
                return bool(a[0]) and bool(a[1])
            if e.kind == "logical_or":
                return bool(a[0]) or bool(a[1])
            if e.kind == "absolute":
                return dt(abs(a[0]))
            if e.kind == "sign":
                return dt(a[0] if a[0] == 0 else numpy.copysign(dt(1), a[0]))
            if e.kind == "negative":
                return dt(-a[0])
            if e.kind == "sqrt":
                return dt(numpy.sqrt(a[0]))
            if e.kind in ("asinh", "sin", "cos", "atan", "tanh", "floor", "ceil", "expm1", "acos", "acosh", "atanh", "tan", "sinh", "cosh", "exp", "log1p", "log2", "log10"):
                return dt(getattr(numpy, {"asinh": "arcsinh", "atan": "arctan", "acos": "arccos", "acosh": "arccosh", "atanh": "arctanh"}.get(e.kind, e.kind))(a[0]))
            if e.kind == "atan2":
                return dt(numpy.arctan2(a[0], a[1]))
            if e.kind == "log":
                return dt(numpy.log(a[0]))
            if e.kind == "square":
                return dt(a[0] * a[0])
            if e.kind == "maximum":
                return dt(a[1] if a[0] < a[1] else a[0])
            if e.kind == "minimum":
                return dt(a[1] if a[1] < a[0] else a[0])
        raise NotImplementedError(e.kind)

    return ev(expr)


# ------------------------------------------------------------------------------------------------ programs
def unit_programs(target, complex_ok=True):
    out = []
    for kind, tmpl in target.kind_to_target.items():
        if tmpl is NotImplemented:
            continue
        if kind in ("lt", "le", "gt", "ge", "eq", "ne"):
            out.append((f"kind:{kind}", (lambda ctx, a, b, kind=kind: ctx.select(getattr(ctx, kind)(a, b), a, b)), ["float", "float"]))
        elif kind in ("logical_and", "logical_or", "logical_xor"):
            out.append((f"kind:{kind}", (lambda ctx, a, b, kind=kind: ctx.select(fa_expr(ctx, kind, a < b, a > ctx.constant(0, a)), a, b)), ["float", "float"]))
        elif kind == "logical_not":
            out.append((f"kind:{kind}", (lambda ctx, a, b: ctx.select(ctx.logical_not(a < b), a, b)), ["float", "float"]))
        elif kind == "select":
            out.append((f"kind:{kind}", (lambda ctx, a, b: ctx.select(a < b, b, a)), ["float", "float"]))
        elif kind in ("real", "imag"):
            out.append((f"kind:{kind}", (lambda ctx, z, kind=kind: fa_expr(ctx, kind, z)), ["complex"]))
        elif kind == "complex":
            out.append((f"kind:{kind}", (lambda ctx, a, b: ctx.complex(a, b)), ["float", "float"]))
        elif kind in ("is_finite", "is_inf", "is_posinf", "is_neginf", "is_nan", "is_negzero"):
            out.append((f"kind:{kind}", (lambda ctx, a, b, kind=kind: ctx.select(fa_expr(ctx, kind, a), a, b)), ["float", "float"]))
        elif kind.startswith("bitwise") or kind in ("asin_acos_kernel",):
            continue
        elif kind in ("add", "subtract", "multiply", "divide", "remainder", "pow", "maximum", "minimum", "atan2", "nextafter"):
            out.append((f"kind:{kind}", (lambda ctx, a, b, kind=kind: fa_expr(ctx, kind, a, b)), ["float", "float"]))
            out.append((f"kind:{kind}:swapped", (lambda ctx, a, b, kind=kind: fa_expr(ctx, kind, b, a)), ["float", "float"]))
        else:
            out.append((f"kind:{kind}", (lambda ctx, a, kind=kind: fa_expr(ctx, kind, a)), ["float"]))
    for cname in ("largest", "smallest", "posinf", "neginf", "pi"):
        out.append((f"const:{cname}", (lambda ctx, a, cname=cname: a * ctx.constant(cname, a)), ["float"]))
    out.append(("const:negative-zero", (lambda ctx, a: ctx.atan2(ctx.constant(-0.0, a), a) + ctx.atan2(ctx.constant(0.0, a), a)), ["float"]))
    out.append(("const:complex-like", (lambda ctx, z, a: ctx.real(z) * ctx.constant(2.5, ctx.real(z)) + a), ["complex", "float"]))
    out.append(("const:complex-typed", (lambda ctx, z: z * ctx.constant(2.0, z)), ["complex"]))
    out.append(("const:integer-literals-divided", (lambda ctx, a: a * (ctx.constant(1, a) / ctx.constant(3, a)) + ctx.constant(7, a) / ctx.constant(2, a)), ["float"]))
    out.append(("shared", (lambda ctx, a, b: (lambda t: (t * t + t) / (t - b))(a * b + a)), ["float", "float"]))
    out.append(("shared-constant", (lambda ctx, a, b: (lambda c: (a + c) * (b - c) + c)(ctx.constant(3.5, a))), ["float", "float"]))
    out.append(("operand-order", (lambda ctx, a, b: ctx.select(a < b, a - b, b / a) - ctx.atan2(b, a)), ["float", "float"]))
    return out


def run_target(rec, fa, tname, rnd, ngen, with_format):
    from functional_algorithms import rewrite

    target = getattr(fa.targets, tname)
    alt = tname == "xla_client"
    progs = []
    for fname, sigs in target.trace_arguments.items():
        for i, sig in enumerate(sigs):
            if getattr(fa.algorithms, fname, None) is not None:
                progs.append((f"shipped:{fname}:{','.join(sig)}", ("shipped", fname, sig)))
    for label, fn, sig in unit_programs(target):
        progs.append((f"unit:{label}", ("fn", fn, sig)))
        # the algebraic rewriter canonicalises e.g. select(a >= b, ..) to select(a < b, ..): print the raw kinds as well
        progs.append((f"unit-norewrite:{label}", ("fn-norewrite", fn, sig)))
    for cmpk in ("lt", "le", "gt", "ge", "eq", "ne"):
        progs.append((f"unit:cmp-inside-logical:{cmpk}", ("fn", (lambda ctx, a, b, cmpk=cmpk: ctx.select(ctx.logical_and(getattr(ctx, cmpk)(a, b), getattr(ctx, cmpk)(b + a, a + a)), a - b, b / a)), ["float", "float"])))
        progs.append((f"unit:cmp-referenced-twice:{cmpk}", ("fn", (lambda ctx, a, b, cmpk=cmpk: (lambda c: ctx.select(c, a, b) + ctx.select(ctx.logical_not(c), a * a, b * b))(getattr(ctx, cmpk)(a, b))), ["float", "float"])))
    kinds = [k for k, v in target.kind_to_target.items() if v is not NotImplemented]
    pg = ProgGen(rnd, ["float"], ["complex"], kinds + ["square", "hypot"], [0, 1, 2, -1, 0.5, 1.5, 3, 0.1, -0.0, 2.0, 1e-3, 1e10], ["pi", "largest", "smallest", "posinf", "neginf"])
    for i in range(ngen):
        fn, sig = pg.make()
        progs.append((f"gen:{i}", ("fn", fn, sig)))
        if i % 3 == 0:
            progs.append((f"gen-norewrite:{i}", ("fn-norewrite", fn, sig)))
    saved_path = os.environ.get("PATH", "")
    for idx, (label, spec) in enumerate(progs):
        name = f"p{idx}"
        try:
            with warnings.catch_warnings():
                warnings.simplefilter("ignore")
                with contextlib.redirect_stdout(io.StringIO()):
                    if spec[0] == "shipped":
                        ctx = fa.Context(paths=[fa.algorithms], enable_alt=alt, default_constant_type="FloatType" if alt else None)
                        g = ctx.trace(getattr(fa.algorithms, spec[1]), *spec[2]).rewrite(target, rewrite)
                    else:
                        ns = {}
                        exec("def %s(ctx, %s):\n    return _fn(ctx, %s)\n" % (name, ", ".join("abc"[: len(spec[2])]), ", ".join("abc"[: len(spec[2])])), dict(_fn=spec[1]), ns)
                        ctx = fa.Context(paths=[fa.algorithms], enable_alt=alt, default_constant_type="FloatType" if alt else None)
                        g = ctx.trace(ns[name], *[f":{s}" for s in spec[2]])
                        g = g.rewrite(target) if spec[0] == "fn-norewrite" else g.rewrite(target, rewrite)
        except NotImplementedError:
            rec.count(f"refused:{tname}:trace")
            continue
        except (AssertionError, TypeError, KeyError, AttributeError, ValueError, RuntimeError) as e:
            if spec[0] in ("fn", "fn-norewrite"):
                rec.count(f"generator-refused:{tname}:{type(e).__name__}")
                continue
            rec.violation(f"{tname}:trace-raises", dict(program=label, exc=f"{type(e).__name__}: {e}"[:300]))
            continue
        for fmt in ((True, False) if (with_format and tname == "xla_client" and idx % 4 == 0) else (True,)):
            os.environ["PATH"] = ("/venv/bin:" + saved_path) if fmt else ":".join(p for p in saved_path.split(":") if "venv" not in p)
            try:
                with warnings.catch_warnings():
                    warnings.simplefilter("ignore")
                    text = g.tostring(target)
            except NotImplementedError:
                rec.count(f"refused:{tname}:print")
                continue
            except AssertionError:
                # the printer's own consistency assertions are how it refuses a graph it cannot name (e.g. a constant whose like-expression contains an
                # equal-valued constant: both want the reference constant_<value>) - "graphs the target accepts" excludes those; nothing was emitted
                rec.count(f"refused:{tname}:print-assertion")
                continue
            except Exception as e:
                rec.violation(f"{tname}:emit-raises:{type(e).__name__}", dict(program=label, graph=describe(g.operands[-1]), exc=f"{type(e).__name__}: {e}"[:300]))
                continue
            finally:
                os.environ["PATH"] = saved_path
            rec.count("programs")
            rec.count("programs:" + tname)
            rec.count("evaluations")
            w = (TdWalker if tname == "stablehlo" else XlaWalker)(rec, label, target)
            try:
                w.check(g, text)
            except RecursionError:
                rec.inconc(f"walker recursion limit on {label}")
                continue
            rec.count("disagreements_checked")
            for what, kw in w.problems[:3]:
                rec.violation(f"{tname}:{what}", dict(program=label, formatted=fmt, text=text[-900:], **kw))
            if ":$" in text or "=" in text or "Constant" in text or "ScalarLike" in text or "Compare" in text:
                rec.cls(tname, label if not label.startswith("gen") else "gen", hash(text) % 1000003)
        if idx < 2:
            rec.sample(dict(target=tname, program=label, text_head=text[:400] if "text" in dir() else None))


def task_target(params, rec):
    import functional_algorithms as fa

    rnd = random.Random(f"c06-{params['seed']}-{params['shard']}-{params['target']}")
    run_target(rec, fa, params["target"], rnd, params["ngen"], with_format=True)


TASKS = {"target": task_target}


def plan(tier, seed):
    ngen, nsh = (170, 3) if tier == "quick" else (2500, 8)
    t = []
    for tname in ("stablehlo", "xla_client"):
        for s in range(nsh):
            t.append(("target", dict(target=tname, seed=seed, shard=s, ngen=ngen)))
    return t


def replay(site, witness, rec):
    tname = site.split(":")[0]
    task_target(dict(target=tname if tname in ("stablehlo", "xla_client") else "stablehlo", seed=0, shard=0, ngen=100), rec)
